"""dump failing VCs of a function:  python3-vt tools/dbg3.py <function suffix> <label>  -> /tmp/vc_<n>.smt2 for each failed VC"""
import sys
from pyvc import extmodels, run, spec, src
src.load(); spec.load_contracts()
q=[k for k in spec.CONTRACTS if k.endswith(sys.argv[1])][0]
r=run.verify_function(q)
vcs=[vc for vc in r.vcs if vc.label==sys.argv[2]]
run.discharge(vcs, [], "quick")
n=0
for vc in vcs:
    print(vc.name, vc.path, vc.status, vc.reason[:60], str(vc._goal)[:300].replace("\n"," "))
    if vc.status!="discharged":
        open(f'/tmp/vc.smt2','w').write(vc.smt2); n+=1
print('dumped last failing to /tmp/vc.smt2')
