"""python3-vt tools/validate_evidence.py - every evidence file against /root/.vp/EVIDENCE.schema.json and the manifest's level."""
import json
import os
import sys

import jsonschema

V = os.path.dirname(os.path.dirname(os.path.abspath(__file__)))
schema = json.load(open("/root/.vp/EVIDENCE.schema.json"))
man = json.load(open(os.path.join(V, "MANIFEST.json")))
bad = 0
for c in man["checks"]:
    pid = c["property_id"]
    p = os.path.join(V, "evidence", pid + ".json")
    try:
        ev = json.load(open(p))
        jsonschema.validate(ev, schema)
        cov = ev["coverage"]
        msgs = []
        if ev["level"] != c["level_claimed"]["category"]:
            msgs.append(f"level {ev['level']} != manifest {c['level_claimed']['category']}")
        if ev["level"] == "proof" and cov.get("discharged") != cov.get("obligations"):
            msgs.append(f"discharged {cov.get('discharged')} != obligations {cov.get('obligations')}")
        if ev.get("violations"):
            msgs.append(f"violations={ev['violations']}")
        if cov.get("distinct_nontrivial", 2) < 2 or not cov.get("samples"):
            msgs.append("distinct_nontrivial < 2 or no samples")
        if cov.get("failed") or cov.get("undecided"):
            msgs.append(f"failed={len(cov.get('failed', []))} undecided={len(cov.get('undecided', []))}")
        print(pid, "ok" if not msgs else "PROBLEM: " + "; ".join(msgs), f"(tier {ev['tier']}, seed {ev['seed']}, {cov.get('discharged')}/{cov.get('obligations')} obligations)")
        bad += bool(msgs)
    except Exception as e:
        print(pid, "INVALID:", str(e)[:200])
        bad += 1
sys.exit(1 if bad else 0)
