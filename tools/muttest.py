"""Mutation self-test: python3-vt tools/muttest.py [ids...]  - scratch copies under /tmp/pyvc_mut (removed afterwards)."""
import json
import os
import shutil
import subprocess
import sys

V = os.path.dirname(os.path.dirname(os.path.abspath(__file__)))
sys.path.insert(0, V)
sys.path.insert(0, os.path.join(V, "mutants"))
import catalog  # noqa

REPO = os.environ.get("PYVC_REPO", "/repo")
FULL = "--full" in sys.argv


def default_funcs(m):
    """without --full: the functions under contract that are defined in the mutated file (plus the one named by `expect`, plus the
    callers that inline accessors of that file); with --full: everything"""
    if FULL:
        return []
    from pyvc import spec, src
    if not getattr(default_funcs, "loaded", False):
        src.load()
        spec.load_contracts()
        default_funcs.loaded = True
    mod = m["file"][:-3].replace("/", ".")
    quals = [q for q, c in spec.CONTRACTS.items() if not (c.abstract or c.trusted or q.startswith("ext.")) and "#canary" not in q]
    out = [q for q in quals if q.split("#")[0].startswith(mod + ".")]
    inliners = {"pyhms.demes.abstract_deme": ["pyhms.tree.", "pyhms.stop_conditions.", "pyhms.utils.print_tree."],
                "pyhms.core.problem": ["pyhms.core.individual."], "pyhms.tree": ["pyhms.stop_conditions.", "pyhms.hms."],
                "pyhms.demes.initialize": ["pyhms.tree.DemeTree._do_sprout", "pyhms.tree.DemeTree.__init__"]}
    for pre in inliners.get(mod, []):
        out += [q for q in quals if q.startswith(pre)]
    return sorted(set(out)) or []
sel = [a for a in sys.argv[1:] if not a.startswith("-")]
muts = [m for m in catalog.M if not sel or m["id"] in sel or any(s in m["props"] for s in sel)]
base = "/tmp/pyvc_mut"
rows = []
for m in muts:
    d = os.path.join(base, m["id"])
    shutil.rmtree(d, ignore_errors=True)
    os.makedirs(d)
    shutil.copytree(os.path.join(REPO, "pyhms"), os.path.join(d, "pyhms"))
    f = os.path.join(d, m["file"])
    s = open(f).read()
    if s.count(m["old"]) != 1:
        rows.append((m["id"], "STALE", f"pattern occurs {s.count(m['old'])} times"))
        shutil.rmtree(d, ignore_errors=True)
        continue
    open(f, "w").write(s.replace(m["old"], m["new"]))
    out = subprocess.run(["python3-vt", "-m", "pyvc.verify"] + (m.get("funcs") or default_funcs(m)), cwd=V, env=dict(os.environ, PYVC_REPO=d), capture_output=True, text=True).stdout
    failed, cur, errors = [], None, []
    for ln in out.splitlines():
        if ln.startswith("== "):
            cur = ln[3:].split(":")[0]
            if "ERROR" in ln:
                errors.append(ln[:200])
        elif "CANARY" not in ln and ln.startswith("   ") and "failed" in ln.split()[0]:
            failed.append(cur + "::" + ln.split()[1])
        elif "CANARY" not in ln and ln.startswith("   ") and ("undecided" in ln.split()[0] or "error" in ln.split()[0]):
            errors.append("undecided " + cur + "::" + ln.split()[1])
    shutil.rmtree(d, ignore_errors=True)
    if m["harmless"]:
        ok = not failed and not errors
        rows.append((m["id"], "ok(harmless)" if ok else "FALSE-ALARM", "; ".join(failed + errors)[:300]))
    else:
        hit = [x for x in failed if m["expect"] in x]
        rows.append((m["id"], "caught" if hit else ("caught-elsewhere" if failed else
                                                    (("undecided(expected)" if m.get("outside_subset") else "UNDECIDED") if errors else "MISSED")),
                     "; ".join((hit or failed or errors)[:3])[:300]))
shutil.rmtree(base, ignore_errors=True)
w = max(len(r[0]) for r in rows)
for r in rows:
    print(f"{r[0]:{w}s}  {r[1]:16s} {r[2]}")
bad = [r for r in rows if r[1] in ("MISSED", "FALSE-ALARM", "STALE", "UNDECIDED")]
print(f"{len(rows)} mutants, {len(bad)} problems")
sys.exit(1 if bad else 0)
