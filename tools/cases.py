"""skolemize the goal of /tmp/vc.smt2 and test it under extra ground assumptions given as SMT-LIB over sk0, sk1, ..."""
import sys, time, z3
ctx = z3.Context()
s0 = z3.Solver(ctx=ctx)
s0.from_string(open('/tmp/vc.smt2').read())
asserts = list(s0.assertions())
goal = asserts[-1]
hyps = asserts[:-1]
assert z3.is_not(goal)
q = goal.arg(0)
while not z3.is_quantifier(q):
    print('goal is not a plain forall:', q.decl()); sys.exit()
n = q.num_vars()
sks = [z3.Const(f'sk{i}', q.var_sort(i), ) for i in range(n)]
print('vars:', [q.var_name(i) for i in range(n)])
body = z3.substitute_vars(q.body(), *reversed(sks))
def run(extra_txt):
    s = z3.Solver(ctx=ctx); s.set('auto_config', False); s.set('smt.mbqi', False); s.set('timeout', 40000)
    s.add(*hyps); s.add(z3.Not(body))
    if extra_txt:
        decls = {str(k): k for k in sks}
        # collect declarations of free constants used in hyps for parsing
        for f in z3.parse_smt2_string(extra_txt, decls={**decls, **CONSTS}, ctx=ctx):
            s.add(f)
    t = time.time(); r = s.check()
    return str(r), round(time.time() - t, 1), (s.reason_unknown()[-22:] if r == z3.unknown else '')
CONSTS = {}
def collect(e, seen=set()):
    stack=[e]
    while stack:
        x=stack.pop()
        if x.get_id() in seen: continue
        seen.add(x.get_id())
        if z3.is_quantifier(x): stack.append(x.body()); continue
        if z3.is_app(x):
            if x.num_args()==0 and x.decl().kind()==z3.Z3_OP_UNINTERPRETED: CONSTS[x.decl().name()]=x
            elif x.decl().kind()==z3.Z3_OP_UNINTERPRETED: CONSTS[x.decl().name()]=x.decl()
            stack.extend(x.children())
for a in asserts: collect(a)
print('body:', str(body)[:1500])
print('base', run(''))
for a in sys.argv[1:]:
    print(a[:120], run(a))
