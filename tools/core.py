"""unsat core of the path condition of the normal-return paths of a function"""
import sys, z3
from pyvc import extmodels, run, spec, src
src.load(); spec.load_contracts()
q=[k for k in spec.CONTRACTS if k.endswith(sys.argv[1])][0]
fi=src.FUNCS[q.split('#')[0]]; con=spec.CONTRACTS[q]
pending=[[]]
while pending:
    pre=pending.pop()
    r=run.run_path(fi,con,pre); pending.extend(r['pending'])
    if r['kind']!='normal': continue
    ex=r['ex']
    s=z3.Solver(); s.set('auto_config',False); s.set('smt.mbqi',False); s.set('timeout',20000); s.set('unsat_core',True)
    for i,p in enumerate(ex.pc): s.assert_and_track(p, f'p{i}')
    res=s.check(); print('path',r['trace'],res)
    if res==z3.unsat:
        core=[int(str(c)[1:]) for c in s.unsat_core()]
        for i in sorted(core): print('  ',i,str(ex.pc[i])[:400].replace('\n',' '))
