"""Confirm and store seeded changes produced by sub-agents, and run the checks against them.
   python3 tools/seeds.py confirm C07 C08 ...   (from /tmp/wt_<id>)  -> /verif/seeded/<id>/
   python3 tools/seeds.py run [ids]             apply each patch to /repo, run the property's quick check, undo"""
import json
import os
import shutil
import subprocess
import sys
import time

V = os.path.dirname(os.path.dirname(os.path.abspath(__file__)))
TEST = "/venv/bin/python -m pytest -q -p no:cacheprovider --timeout=900 -x 2>&1 | tail -1"


def sh(cmd, cwd=None, timeout=3600):
    p = subprocess.run(cmd, shell=True, cwd=cwd, capture_output=True, text=True, timeout=timeout)
    return p.returncode, (p.stdout + p.stderr).strip()


def confirm(sid, prop=None):
    wt = f"/tmp/wt_{sid}"
    prop = prop or sid[:3]
    out = os.path.join(V, "seeded", sid)
    os.makedirs(out, exist_ok=True)
    diff = subprocess.run("git diff -- pyhms", shell=True, cwd=wt, capture_output=True, text=True).stdout
    open(os.path.join(out, "patch.diff"), "w").write(diff)
    demo = [f for f in os.listdir(wt) if f.startswith("demo_") and f.endswith(".py")][0]
    shutil.copy(os.path.join(wt, demo), os.path.join(out, demo))
    meta = {}
    if os.path.exists(os.path.join(wt, "seed_meta.json")):
        try:
            meta = json.load(open(os.path.join(wt, "seed_meta.json")))
        except Exception:
            meta = {}
    # confirm in the worktree itself: with change / without change
    rc_t, t_with = sh(TEST, cwd=wt)
    rc_d, d_with = sh(f"/venv/bin/python {demo}", cwd=wt)
    sh("git stash -q -- pyhms", cwd=wt)
    rc_d0, d_without = sh(f"/venv/bin/python {demo}", cwd=wt)
    sh("git stash pop -q", cwd=wt)
    ok = ("55 passed" in t_with) and rc_d != 0 and rc_d0 == 0
    meta_out = dict(property=prop, id=sid, breaks=meta.get("summary", ""), needs=meta.get("needs", ""),
                    confirmed=dict(tests_with_change=t_with[-60:], demo_with_change_exit=rc_d, demo_with_change_tail=d_with[-300:],
                                   demo_without_change_exit=rc_d0, ok=ok),
                    how="confirmed by tools/seeds.py in the agent's scratch worktree: existing test-suite with the change, "
                        "demonstration with the change (must fail) and without it (must pass)", demo=demo)
    json.dump(meta_out, open(os.path.join(out, "meta.json"), "w"), indent=1)
    print(sid, "CONFIRMED" if ok else "NOT CONFIRMED", t_with[-40:], rc_d, rc_d0)
    return ok


def run(sid):
    d = os.path.join(V, "seeded", sid)
    meta = json.load(open(os.path.join(d, "meta.json")))
    prop = meta["property"]
    rc, o = sh("git status --porcelain", cwd="/repo")
    assert not o.strip(), "/repo is not clean: " + o
    rc, o = sh(f"git apply {os.path.join(d, 'patch.diff')}", cwd="/repo")
    if rc:
        print(sid, "patch does not apply:", o[-200:])
        return
    t0 = time.time()
    evp = os.path.join(V, "evidence", prop + ".json")
    saved = open(evp).read() if os.path.exists(evp) else None
    try:
        rc, o = sh(f"python3-vt -m pyvc.check {prop} --tier quick", cwd=V, timeout=3000)
    finally:
        sh("git checkout -- .", cwd="/repo")
        # the evidence file describes /repo as committed: a run against a seeded change must not leave its record behind
        if saved is not None:
            open(evp, "w").write(saved)
    lines = [l for l in o.splitlines() if l.startswith(("VIOLATION", "KNOWN", "UNDECIDED", "CHECKER", prop))]
    res = dict(exit=rc, seconds=round(time.time() - t0), lines=[l[:400] for l in lines[:8]])
    meta["check_result"] = res
    json.dump(meta, open(os.path.join(d, "meta.json"), "w"), indent=1)
    print(sid, "exit", rc, f"{res['seconds']}s")
    for l in lines[:6]:
        print("   ", l[:300])


if __name__ == "__main__":
    cmd, ids = sys.argv[1], sys.argv[2:]
    if cmd == "confirm":
        for i in ids:
            confirm(i)
    else:
        ids = ids or sorted(os.listdir(os.path.join(V, "seeded")))
        for i in ids:
            run(i)
