import sys
from pyvc import extmodels, run, spec, src
import z3
src.load(); spec.load_contracts()
q=[k for k in spec.CONTRACTS if k.endswith(sys.argv[1])][0]
r=run.verify_function(q)
print(r.error)
for vc in r.vcs:
    if vc.label==sys.argv[2] and str(vc.path)==sys.argv[3]:
        print(vc.smt2[-6000:])
