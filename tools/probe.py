"""probe a dumped VC (/tmp/vc.smt2):  python3-vt tools/probe.py [-d] '<smt2 term>' ...
   default: is the goal provable when the term is added as a hypothesis?   -d: is the term derivable from the hypotheses?"""
import sys, z3
txt = open('/tmp/vc.smt2').read().replace('(check-sat)', '')
i = txt.rindex('(assert')
hyps, goal = txt[:i], txt[i:]
def run(text):
    ctx = z3.Context(); s = z3.Solver(ctx=ctx); s.set('auto_config', False); s.set('smt.mbqi', False); s.set('timeout', 20000)
    s.from_string(text)
    r = s.check()
    return str(r) + ((' ' + s.reason_unknown()[-25:]) if r == z3.unknown else '')
derive = '-d' in sys.argv
args = [a for a in sys.argv[1:] if a != '-d']
print('base:', run(hyps + goal))
for a in args:
    if derive:
        print('derivable?', a[:110], '->', run(hyps + f'(assert (not {a}))'))
    else:
        print('with hyp', a[:110], '->', run(hyps + f'(assert {a})' + goal))
