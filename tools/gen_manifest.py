"""Regenerate MANIFEST.json from pyvc.properties (run with python3-vt from /verif)."""
import json
import os
import sys

sys.path.insert(0, os.path.dirname(os.path.dirname(os.path.abspath(__file__))))
from pyvc import properties  # noqa: E402

V = os.path.dirname(os.path.dirname(os.path.abspath(__file__)))
props = [json.loads(l) for l in open(os.path.join(V, "properties.jsonl"))]
checks, na = [], []
for p in props:
    pid = p["id"]
    m = properties.PROPS.get(pid)
    if m is None:
        na.append(dict(property_id=pid, reason=properties.NOT_APPLICABLE.get(pid, "check not built yet (work in progress; see DESIGN.md)")))
        continue
    checks.append(dict(
        property_id=pid,
        quick_cmd=f"python3-vt -m pyvc.check {pid} --tier quick",
        thorough_cmd=f"python3-vt -m pyvc.check {pid} --tier thorough",
        evidence_file=f"/verif/evidence/{pid}.json",
        replay_cmd_template="python3-vt -m pyvc.replay {path}",
        engine="pyvc",
        level_claimed=dict(category=m["level"], text=m.get("level_text", ""), design_ref=m.get("design_ref", f"DESIGN.md section 6 {pid}")),
        level_note=m.get("level_note", ""),
        technique=m.get("technique", "contract-based deductive verification: sidecar contracts on the real AST, VCs by symbolic execution, discharged by z3"),
    ))
man = dict(
    version=1,
    setup_cmd="python3-vt -m pyvc.setup",
    hooks=dict(guard="PYHMS_VERIF",
               enable="no source hooks: contracts are sidecar files under /verif/contracts; nothing in /repo is instrumented; "
                      "replay monitors are attached by monkey-patching inside the replay process",
               baseline_off_cmd="cd /repo && /venv/bin/python -m pytest -ra -q -p no:cacheprovider --timeout=900 --continue-on-collection-errors",
               source_commits=[], add_only=True),
    engines=[dict(name="pyvc", path="/verif/pyvc", serves_properties=[c["property_id"] for c in checks],
                  kind_free_text="Boogie-style deductive verifier for a Python subset written for this task: symbolic execution of the real "
                                 "AST of /repo/pyhms against sidecar contracts (/verif/contracts), per-field heap maps, loop invariants, "
                                 "modular calls, VCs discharged by z3 5.1 (E-matching only, rlimit-bounded)")],
    checks=checks,
    notes="exit codes of every check: 0 held / 1 VIOLATION / 2 undecided (never a violation) / 3 checker broken. See DESIGN.md.",
    not_applicable=na,
)
json.dump(man, open(os.path.join(V, "MANIFEST.json"), "w"), indent=1)
print(f"{len(checks)} checks, {len(na)} not applicable")
