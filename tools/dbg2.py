import sys, time
from pyvc import extmodels, run, spec, src
import z3
src.load(); spec.load_contracts()
q=[k for k in spec.CONTRACTS if k.endswith(sys.argv[1])][0]
r=run.verify_function(q)
print(r.error)
for vc in r.vcs:
    if vc.label==sys.argv[2] and vc.kind==sys.argv[3]:
        open('/tmp/vc.smt2','w').write(vc.smt2)
        print('written', vc.name, len(vc.smt2))
        break
