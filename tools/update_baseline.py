"""Record, for every obligation discharged on the current (unchanged) tree, the largest z3 rlimit count any of its VCs
needed.  Budgets of later runs are 40x these numbers (pyvc.run.budget_for).  python3-vt tools/update_baseline.py"""
import json
import os
import sys

V = os.path.dirname(os.path.dirname(os.path.abspath(__file__)))
sys.path.insert(0, V)
from pyvc import extmodels, run, spec, src  # noqa

src.load()
spec.load_contracts()
run.BASELINE = {}          # measure with the default budget
quals = [q for q, c in spec.CONTRACTS.items() if not (c.abstract or c.trusted or q.startswith("ext."))]
sel = sys.argv[1:]
if sel:
    quals = [q for q in quals if any(q.endswith(x) for x in sel)]
from pyvc import renames  # noqa: E402
lp = os.path.join(V, "baseline", "locals.json")
basel = json.load(open(lp)) if (sel and os.path.exists(lp)) else {}
basel.update(renames.record(src.FUNCS, quals))
json.dump(dict(sorted(basel.items())), open(lp, "w"), indent=0)
results = [run.verify_function(q) for q in quals]
vcs = [vc for r in results for vc in r.vcs]
covers = [c for r in results for c in r.covers]
cover_res = run.discharge(vcs, covers, "quick")
# how many path covers are refuted (infeasible paths) per function on the unchanged tree: more than that later means that a path
# which could be executed has become contradictory (vacuity guard in pyvc.check)
refuted = {}
for r in results:
    refuted[r.qual] = sum(1 for k, v in cover_res.items() if k.startswith(r.qual + "::cover::path") and v[0] == "unsat")
cp = os.path.join(V, "baseline", "covers.json")
basec = json.load(open(cp)) if (sel and os.path.exists(cp)) else {}
basec.update(refuted)
json.dump(dict(sorted(basec.items())), open(cp, "w"), indent=0)
pth = os.path.join(V, "baseline", "obligations.json")
os.makedirs(os.path.dirname(pth), exist_ok=True)
base = json.load(open(pth)) if (sel and os.path.exists(pth)) else {}
byname = {}
for vc in vcs:
    byname.setdefault(vc.name, []).append(vc)
n = 0
for nm, l in byname.items():
    if all(v.status == "discharged" for v in l):
        base[nm] = max(int(v.reason.split("=")[1]) for v in l if v.reason.startswith("rlimit="))
        n += 1
    else:
        base.pop(nm, None)
        if "CANARY" not in nm:
            print("not discharged (no baseline):", nm, sorted({v.status for v in l}))
for r in results:
    if r.error:
        print("ERROR", r.qual, r.error[:200])
json.dump(dict(sorted(base.items())), open(pth, "w"), indent=0)
print(f"{n} obligations recorded, max rlimit {max(base.values()) if base else 0:,}")
