"""python3-vt -m pyvc.replay <replay file>: re-run the failing input recorded in a replay file against the real code in /repo.

A replay file is written by pyvc.check for every reported violation.  It names the failed obligation (or the firing bounded check), carries
the solver's output, and - when an input was found - the witness: the seeded scenario of replay/battery.py or the case of replay/bounded.py
that failed.  This command runs that driver again with the recorded property / seed / tier under CPython (/venv) and reports whether the
violation shows again.  Exit 1: reproduced (the witness line is printed); 0: not reproduced on the current tree; 2: the file carries no
failing input (`no-failing-input-found`): the obligation and the solver's reason are printed instead."""
import json
import os
import subprocess
import sys

from . import REPO, VERIF


def main(argv):
    if len(argv) != 1:
        print(__doc__)
        return 2
    rec = json.load(open(argv[0]))
    pid = rec.get("property")
    print(f"property {pid}; obligation / check: {rec.get('obligation')}")
    for c in rec.get("clause") or []:
        print("  clause:", c)
    for w in rec.get("where") or []:
        print("  where:", w)
    for s_ in (rec.get("solver") or [])[:3]:
        print(f"  solver: path {s_.get('path')} -> {s_.get('status')} ({(s_.get('reason') or '')[:160]})")
        if s_.get("model"):
            print("  candidate model (first lines):")
            for ln in str(s_["model"]).splitlines()[:12]:
                print("     ", ln[:160])
    wit = rec.get("replay")
    if not wit:
        print("no failing input was found for this obligation (the VIOLATION line ended with no-failing-input-found)")
        return 2
    driver = wit.get("driver", "replay/battery.py")
    seed = str(wit.get("seed", 0))
    cmd = ["/venv/bin/python", os.path.join(VERIF, driver), pid, "--seed", seed, "--tier", "quick"]
    print("re-running:", " ".join(cmd))
    p = subprocess.run(cmd, capture_output=True, text=True, timeout=3600, env=dict(os.environ, PYTHONPATH=REPO, PYVC_REPO=REPO))
    for ln in p.stdout.splitlines():
        if ln.startswith("WITNESS "):
            w = json.loads(ln[8:])
            print("REPRODUCED:", w.get("what"))
            print(json.dumps(w.get("detail"), default=str)[:1500])
            if w.get("scenario"):
                print("scenario:", json.dumps(w["scenario"], default=str)[:800])
            return 1
    print("not reproduced on the current tree (recorded witness: %s)" % (wit.get("what"),))
    return 0


if __name__ == "__main__":
    sys.exit(main(sys.argv[1:]))
