"""Models of the few standard-library / third-party calls that need no sidecar contract."""
import z3

from . import smt
from .models import handler, llen, litem, as_list, _unint
from .smt import FL, INT
from .values import Ty, Unsupported, Val, vbool, vfl, vint, vnone


@handler("time.perf_counter")
def _perf(ex, fv_, args, kwargs, fr, node):
    t = ex.fresh("perf_counter", FL)
    ex.assume(smt.is_fin(t))
    return vfl(t)


@handler("random.choice")
def _rchoice(ex, fv_, args, kwargs, fr, node):
    lst = as_list(ex, args[0], fr, node)
    n = llen(ex, lst)
    k = ex.fresh("choice", INT)
    ex.assume(z3.And(0 <= k, k < n))
    return litem(ex, lst, k)


@handler("uuid.uuid4")
def _uuid(ex, fv_, args, kwargs, fr, node):
    return Val(Ty("ref", cls="$uuid"), ex.new_obj("uuid"))


@handler("ValueError", "NotImplementedError")
def _exc(ex, fv_, args, kwargs, fr, node):
    return vnone()
