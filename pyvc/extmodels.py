"""Models of the few standard-library / third-party calls that need no sidecar contract."""
import z3

from . import smt
from .models import handler, llen, litem, as_list, _unint
from .smt import FL, INT
from .values import Ty, Unsupported, Val, vbool, vfl, vint, vnone


@handler("time.perf_counter")
def _perf(ex, fv_, args, kwargs, fr, node):
    t = ex.fresh("perf_counter", FL)
    ex.assume(smt.is_fin(t))
    return vfl(t)


@handler("random.choice")
def _rchoice(ex, fv_, args, kwargs, fr, node):
    lst = as_list(ex, args[0], fr, node)
    n = llen(ex, lst)
    k = ex.fresh("choice", INT)
    ex.assume(z3.And(0 <= k, k < n))
    return litem(ex, lst, k)


@handler("uuid.uuid4")
def _uuid(ex, fv_, args, kwargs, fr, node):
    return Val(Ty("ref", cls="$uuid"), ex.new_obj("uuid"))


@handler("ValueError", "NotImplementedError")
def _exc(ex, fv_, args, kwargs, fr, node):
    return vnone()


@handler("scipy.optimize.minimize")
def _scipy_minimize(ex, fv_, args, kwargs, fr, node):
    """scipy.optimize.minimize(fun, x0, ..., callback=cb): the optimiser interacts with the program only by calling `fun` and
    `callback`, any finite number of times in any order (trusted).  Modelled as the loop
        while *: (fun(x) for some x) or (callback(r) for some intermediate result r)
    under the invariant the calling function's contract declares as loops["callbacks"].  The result object's nfev is the number
    of calls of `fun` (trusted: SciPy reports it exactly)."""
    from .core import PathEnd
    from . import spec as _spec
    con = fr.contract
    ls = con.loops.get("callbacks") if con is not None else None
    if ls is None:
        raise Unsupported("scipy.optimize.minimize: the contract must declare loops['callbacks'] (client-loop invariant)")
    fun = args[0]
    cb = kwargs.get("callback")
    ex.used_models.add("scipy.optimize.minimize (client loop over fun/callback; nfev == number of fun calls)")
    fr.locals["sopt_fun_calls"] = vint(0)

    def extra(fr_):
        n = ex.fresh("sopt_fun_calls", INT)
        ex.assume(n >= 0)
        fr_.locals["sopt_fun_calls"] = vint(n)

    def guard(fr_):
        return ex.fresh("sopt_more", z3.BoolSort())

    def body(fr_):
        if cb is None or ex.dec.decide(2) == 0:
            x = Val(Ty("g"), ex.fresh("sopt_x", smt.G))
            ex.call_value(fun, [x], {}, fr_, node)
            fr_.locals["sopt_fun_calls"] = vint(fr_.locals["sopt_fun_calls"].t + 1)
        else:
            r = ex.new_obj("optres", "$OptRes")
            rv = Val(Ty("ref", cls="$OptRes"), r)
            ex.wr(r, "x", Val(Ty("g"), ex.fresh("sopt_rx", smt.G)), Ty("g"))
            f_ = ex.fresh("sopt_rfun", FL)
            ex.assume(smt.fl_isnum(f_))
            ex.wr(r, "fun", vfl(f_), Ty("fl"))
            ex.call_value(cb, [rv], {}, fr_, node)

    ex.run_loop(fr, "callbacks", ls, guard, body, set(), extra_locals=extra, node=node)
    res = ex.new_obj("optresult", "$OptResult")
    ex.wr(res, "nfev", fr.locals["sopt_fun_calls"], Ty("int"))
    return Val(Ty("ref", cls="$OptResult"), res)


@handler("getattr")
def _getattr3(ex, fv_, args, kwargs, fr, node):
    """getattr(obj, "name", default): the attribute's value if it has been set, the default otherwise.  Whether an instance
    attribute has been set is not tracked: the result is one of the two (an over-approximation)."""
    from .models import lit_of
    from . import spec as _spec
    if len(args) != 3 or args[0].ty.kind != "ref" or args[1].ty.kind != "str":
        raise Unsupported("getattr other than getattr(obj, 'name', default)")
    name = lit_of(args[1].t)
    ft = _spec.field_type(args[0].ty.cls, name)
    if ft is None:
        raise Unsupported(f"getattr: field {args[0].ty.cls}.{name} has no declared type")
    cur = ex.rd(args[0].t, name, ft)
    dflt = ex.coerce(args[2], ft)
    r = ex.fresh("getattr", ft.sort())
    ex.assume(z3.Or(r == cur.t, r == dflt.t))
    return Val(ft, r)


@handler("g.copy")
def _gcopy(ex, fv_, args, kwargs, fr, node):
    return fv_.bound


@handler("copy.deepcopy")
def _deepcopy(ex, fv_, args, kwargs, fr, node):
    """copy.deepcopy(x): a new object graph that shares nothing with the program's objects; modelled as an opaque new object
    (pyhms only stores such copies in bookkeeping lists that no property reads)"""
    return Val(Ty("ref", cls="$Opaque"), ex.new_obj("deepcopy", "$Opaque"))


_MEANF = z3.Function("MEANF", z3.ArraySort(INT, FL), INT, FL)


@handler("numpy.mean")
def _npmean(ex, fv_, args, kwargs, fr, node):
    """numpy.mean of a list of floats: an uninterpreted function of the sequence (its value is not constrained by any contract)"""
    from .models import larrs
    lst = as_list(ex, args[0], fr, node)
    if lst.ty.args[0].kind != "fl" or kwargs:
        raise Unsupported("numpy.mean other than the mean of a list of floats")
    return vfl(_MEANF(larrs(ex, lst)[0], llen(ex, lst)))


@handler("objdict.update")
def _objdict_update(ex, fv_, args, kwargs, fr, node):
    """obj.__dict__.update(kwargs) with the statically known extra keyword arguments: sets those attributes"""
    from . import spec as _spec
    d = fv_.bound
    src_ = args[0]
    if src_.ty.kind != "kwdict":
        raise Unsupported("__dict__.update with something other than the function's own **kwargs")
    cls = d.meta["cls"]
    for k, v in src_.meta["items"].items():
        ft = _spec.field_type(cls, k)
        if ft is None:
            raise Unsupported(f"__dict__.update: field {cls}.{k} has no declared type")
        ex.wr(d.t, k, v, ft)
        ex.wr(d.t, f"hasattr${k}", vbool(True))
    return vnone()
