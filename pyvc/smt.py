"""SMT vocabulary shared by the executor and the contract language."""
import z3

Z = z3
INT = z3.IntSort()
BOOL = z3.BoolSort()
REAL = z3.RealSort()
REF = INT          # object references are integers; 0 is None

# ---- floats, "order tier": exact for comparisons; + - * / are real arithmetic on Fin -------------
_Fl = z3.Datatype("Fl")
_Fl.declare("NaN")
_Fl.declare("NegInf")
_Fl.declare("PosInf")
_Fl.declare("Fin", ("fv", REAL))
_Fl.declare("FNone")       # Python None where a float is expected (fitness=None, best_fitness=None)
FL = _Fl.create()
NaN, NegInf, PosInf, Fin, FNone = FL.NaN, FL.NegInf, FL.PosInf, FL.Fin, FL.FNone
is_nan, is_ninf, is_pinf, is_fin, is_fnone = FL.is_NaN, FL.is_NegInf, FL.is_PosInf, FL.is_Fin, FL.is_FNone
fv = FL.fv

# ---- optional ints ------------------------------------------------------------------------------
_OI = z3.Datatype("OInt")
_OI.declare("INone")
_OI.declare("ISome", ("iv", INT))
OINT = _OI.create()

# ---- genomes: opaque rows (row view).  coordinate view through coord(g, j) --------------------
G = z3.DeclareSort("G")
coord = z3.Function("coord", G, INT, FL)

_OG = z3.Datatype("OG")
_OG.declare("GNone")
_OG.declare("GSome", ("gv", G))
OG = _OG.create()

# ---- strings: a free term algebra (assumption: formatting is injective, see DESIGN 4.3) --------
_S = z3.Datatype("Str")
_S.declare("SLit", ("lit", INT))
_S.declare("SInt", ("sint", INT))
_S.declare("SFl", ("sflspec", INT), ("sfl", FL))
_S.declare("SG", ("sgspec", INT), ("sg", G))
_S.declare("SCat", ("shead", _S), ("stail", _S))
_S.declare("SOpq", ("sopq", INT))
STR = _S.create()

_LITS = {}


def str_lit(s):
    if s not in _LITS:
        _LITS[s] = len(_LITS) + 1
    return STR.SLit(z3.IntVal(_LITS[s]))


def lit_table():
    return dict(_LITS)


# ---- opaque arrays: immutable array *values* whose contents are not modelled; arithmetic on them is a deterministic
# uninterpreted function of the operands, rows are genomes (row view) --------------------------------------------------
OARR = z3.DeclareSort("OArr")
oarr_bin = z3.Function("oarr_bin", INT, OARR, OARR, OARR)
oarr_of_fl = z3.Function("oarr_of_fl", FL, OARR)
oarr_col = z3.Function("oarr_col", INT, INT, OARR)        # (bounds array ref, column) -> column vector
oarr_rows = z3.Function("oarr_rows", OARR, INT)
oarr_row = z3.Function("oarr_row", OARR, INT, G)
barr_row = z3.Function("barr_row", INT, INT, G)           # (bounds array ref, j) -> the row [lower_j, upper_j]

SORTS = {"int": INT, "bool": BOOL, "fl": FL, "str": STR, "g": G, "oint": OINT, "real": REAL, "og": OG, "oarr": OARR}


def fl_of_real(r):
    return Fin(r)


def fl_const(x):
    import math
    if x is None:
        return FNone
    if isinstance(x, float) and math.isnan(x):
        return NaN
    if x == float("inf"):
        return PosInf
    if x == float("-inf"):
        return NegInf
    from fractions import Fraction
    fr = Fraction(x)
    return Fin(z3.RealVal(f"{fr.numerator}/{fr.denominator}"))


def fl_neg(a):
    return z3.If(is_pinf(a), NegInf, z3.If(is_ninf(a), PosInf, z3.If(is_fin(a), Fin(-fv(a)), a)))


def fl_lt(a, b):
    """IEEE '<' on the order tier (NaN compares false; FNone is treated like NaN: Python raises)."""
    return z3.Or(
        z3.And(is_ninf(a), z3.Or(is_fin(b), is_pinf(b))),
        z3.And(is_fin(a), is_pinf(b)),
        z3.And(is_fin(a), is_fin(b), fv(a) < fv(b)),
    )


def fl_le(a, b):
    return z3.Or(fl_lt(a, b), fl_eq(a, b))


def fl_eq(a, b):
    """IEEE '==' (NaN != NaN)."""
    return z3.And(z3.Not(is_nan(a)), z3.Not(is_nan(b)), z3.Not(is_fnone(a)), z3.Not(is_fnone(b)), a == b)


def fl_isnum(a):
    return z3.Or(is_fin(a), is_pinf(a), is_ninf(a))


def fl_arith(op, a, b):
    """+ - * / : exact on finite operands (real arithmetic: DESIGN 4.3), IEEE conventions for
    infinities where they are unambiguous, an unconstrained value otherwise."""
    if op == "+":
        fin = Fin(fv(a) + fv(b))
        return z3.If(z3.And(is_fin(a), is_fin(b)), fin,
               z3.If(z3.Or(is_nan(a), is_nan(b), is_fnone(a), is_fnone(b)), NaN,
               z3.If(z3.And(is_pinf(a), is_ninf(b)), NaN,
               z3.If(z3.And(is_ninf(a), is_pinf(b)), NaN,
               z3.If(z3.Or(is_pinf(a), is_pinf(b)), PosInf, NegInf)))))
    if op == "-":
        return fl_arith("+", a, fl_neg(b))
    if op == "*":
        # multiplication by a numeral (or a choice between numerals, e.g. `sign = -1.0 if maximize else 1.0`) stays linear and is
        # exact on infinities too
        for x, y in ((a, b), (b, a)):
            d = _const_choice(x)
            if d is not None:
                return d(lambda c: _mul_const(c, y))
        fin = Fin(fv(a) * fv(b))
        return z3.If(z3.And(is_fin(a), is_fin(b)), fin, _fl_unk("mul", a, b))
    if op == "/":
        return z3.If(z3.And(is_fin(a), is_fin(b), fv(b) != 0), Fin(fv(a) / fv(b)), _fl_unk("div", a, b))
    raise NotImplementedError(op)


def _numeral(t):
    t = z3.simplify(t)
    if z3.is_app(t) and t.decl().name() == "Fin" and z3.is_rational_value(t.arg(0)):
        return t.arg(0)
    return None


def _const_choice(t):
    """t is Fin(c) or If(cond, Fin(c1), Fin(c2)) with numerals: return a function that rebuilds the choice around a per-numeral result"""
    c = _numeral(t)
    if c is not None:
        return lambda k: k(c)
    ts = z3.simplify(t)
    if z3.is_app(ts) and ts.decl().kind() == z3.Z3_OP_ITE:
        c1, c2 = _numeral(ts.arg(1)), _numeral(ts.arg(2))
        if c1 is not None and c2 is not None:
            return lambda k: z3.If(ts.arg(0), k(c1), k(c2))
    return None


def _mul_const(c, y):
    sgn = c.as_fraction()
    if sgn == 0:
        return z3.If(is_fin(y), Fin(z3.RealVal(0)), NaN)
    inf_case = y if sgn > 0 else fl_neg(y)
    return z3.If(is_fin(y), Fin(c * fv(y)), z3.If(z3.Or(is_pinf(y), is_ninf(y)), inf_case, NaN))


_UNK = {}


def _fl_unk(name, a, b):
    f = _UNK.get(name)
    if f is None:
        f = _UNK[name] = z3.Function("fl_" + name + "_nonfinite", FL, FL, FL)
    return f(a, b)


def fl_abs(a):
    return z3.If(is_fin(a), Fin(z3.If(fv(a) >= 0, fv(a), -fv(a))), z3.If(is_ninf(a), PosInf, a))


def fl_truthy(a):
    return z3.Not(z3.Or(is_fnone(a), z3.And(is_fin(a), fv(a) == 0)))


# depth of a deme id: "root" -> 0, "3" -> 1, "3/0" -> 2, ...
id_depth = z3.RecFunction("id_depth", STR, INT)
_s = z3.Const("s", STR)
z3.RecAddDefinition(id_depth, [_s], z3.If(STR.is_SInt(_s), 1, z3.If(STR.is_SCat(_s), id_depth(STR.shead(_s)) + 1, 0)))


# ---- coordinate view: one generic element of an array expression.  Tier "fp64": IEEE binary64, round-to-nearest-even;
# tier "real": mathematical reals.  The tier is chosen per contract (elem_tier=...).
FP64 = z3.Float64()
RNE = z3.RNE()
ELEM_SORT = [FP64]
