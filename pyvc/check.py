"""Per-property check:  python3-vt -m pyvc.check <ID> [--tier quick|thorough]

exit 0  every obligation of the property discharged (known findings are printed)
exit 1  a named obligation failed: `VIOLATION property=<id> replay=<path>` (+ no-failing-input-found)
exit 2  undecided (resource limit, construct outside the subset, function not found) - never a violation
exit 3  the checker itself is broken (vacuous contract, canary proved, internal error)
"""
import argparse
import json
import os
import subprocess
import sys
import time

from . import REPO, VERIF, extmodels, run, spec, src


def clause_tags(con):
    tags = set(con.tags)
    for c in con.requires + con.ensures + con.raises:
        tags |= c.tags
    for ls in con.loops.values():
        for c in ls.get("invariant", []):
            tags |= c.tags
    for cls_ in con.calls.values():
        for c in cls_:
            tags |= c.tags
    return tags


def functions_of(pid):
    out = []
    for q, con in spec.CONTRACTS.items():
        if q.startswith("ext.") or con.abstract or con.trusted or "#canary" in q:
            continue
        if pid in clause_tags(con):
            out.append(q)
    return sorted(out)


_COVERS = [None]


def _covers_baseline():
    if _COVERS[0] is None:
        import json
        try:
            _COVERS[0] = json.load(open(os.path.join(VERIF, "baseline", "covers.json")))
        except Exception:
            _COVERS[0] = {}
    return _COVERS[0]


def mutation_self_test(pid, limit=12):
    """thorough tier: the catalogue mutants tagged with this property (mutants/catalog.py) are applied to scratch copies of the
    current tree and the contracts of the mutated file are re-verified.  Informational: it measures how discriminating the
    obligations are; it says nothing about /repo and never changes the exit code."""
    rec = dict(name=f"selftest::{pid}", kind="mutation self-test of the obligations (scratch copies; tools/muttest.py)",
               bound=f"at most {limit} catalogue mutants tagged {pid}", status="ok", known=[])
    try:
        sys.path.insert(0, os.path.join(VERIF, "mutants"))
        import catalog
        ids = [m["id"] for m in catalog.M if pid in m["props"]][:limit]
        if not ids:
            rec["summary"] = dict(cases=0, detail="no catalogue mutant is tagged with this property")
            return rec
        p = subprocess.run(["python3-vt", os.path.join(VERIF, "tools", "muttest.py")] + ids, capture_output=True, text=True,
                           timeout=7200, cwd=VERIF, env=dict(os.environ, PYVC_NO_BATTERY="1"))
        rows = [ln.split(None, 2) for ln in p.stdout.splitlines() if ln and not ln[0].isdigit() and len(ln.split()) >= 2]
        verdicts = {}
        for r_ in rows:
            verdicts[r_[1]] = verdicts.get(r_[1], 0) + 1
        rec["summary"] = dict(cases=len(rows), nontrivial=sum(v for k, v in verdicts.items() if k.startswith("caught")), verdicts=verdicts,
                              samples=[" ".join(r_)[:200] for r_ in rows][:12])
    except Exception as e:          # the self-test is a bonus: its failure is recorded, nothing else
        rec["summary"] = dict(cases=0, detail=f"self-test did not run: {type(e).__name__}: {e}")
    return rec


def canaries_of(pid):
    return sorted(q for q, con in spec.CONTRACTS.items() if "#canary" in q and (pid in con.tags or "ALL" in con.tags))


def relevant(vc, pid):
    t = set(vc.tags) - {"frame"}
    return (not t) or (pid in t)


def load_known():
    p = os.path.join(VERIF, "known_findings.json")
    if not os.path.exists(p):
        return dict(findings=[], fixed=[])
    return json.load(open(p))


def trusted_base(results):
    tb = []
    used = set()
    for r in results:
        used |= r.used_contracts
    for q in sorted(used):
        con = spec.CONTRACTS[q]
        if q.startswith("ext.") or con.trusted:
            tb.append(f"external/trusted contract: {q}" + (f" ({con.note})" if con.note else ""))
        elif con.abstract:
            tb.append(f"abstract contract assumed at dynamic calls (each shipped override is proved to refine it): {q}")
    models = set()
    for r in results:
        models |= r.used_models
    if models:
        tb.append("built-in semantics of: " + ", ".join(sorted(models)))
    for ax in spec.AXIOMS:
        tb.append(f"axiom {ax.name}: {ax.text}")
    tb.extend(spec.TRUSTED)
    return tb


def main(argv=None):
    ap = argparse.ArgumentParser()
    ap.add_argument("pid")
    ap.add_argument("--tier", default=os.environ.get("VERIF_TIER", "quick"))
    ap.add_argument("--no-replay", action="store_true")
    a = ap.parse_args(argv)
    pid, tier = a.pid, a.tier if a.tier in ("quick", "thorough") else "quick"
    seed = int(os.environ.get("VERIF_SEED", "0") or 0)
    t0 = time.time()
    src.load()
    spec.load_contracts()
    from . import properties
    meta = properties.PROPS.get(pid)
    if meta is None:
        print(f"property {pid}: not claimed (see MANIFEST not_applicable)")
        return 2
    quals = functions_of(pid)
    canq = canaries_of(pid)
    broken, undecided = [], []
    if not quals and (meta["level"] == "proof" or not meta.get("bounded_parts")):
        broken.append("no function under contract is tagged with this property")
    results = [run.verify_function(q) for q in quals]
    cres_fn = [run.verify_function(q) for q in canq]
    vcs = [vc for r in results for vc in r.vcs if relevant(vc, pid)]
    can_vcs = [vc for r in cres_fn for vc in r.vcs if vc.label.startswith("CANARY")]
    covers = [c for r in results for c in r.covers]
    cover_res = run.discharge(vcs + can_vcs, covers, tier)
    # ---- soundness guards -------------------------------------------------------------------
    for r in results + cres_fn:
        if r.error:
            (broken if r.internal else undecided).append(f"{r.qual}: {r.error}")
    for r in results:
        if r.error:
            continue
        ent = cover_res.get(f"{r.qual}::cover::entry")
        if ent is not None and ent[0] == "unsat":
            broken.append(f"{r.qual}: precondition/axioms are contradictory (entry cover refuted)")
        ends = [k for k in cover_res if k.startswith(r.qual + "::cover::path")]
        if ends and all(cover_res[k][0] == "unsat" for k in ends):
            broken.append(f"{r.qual}: no feasible path (vacuous)")
        base_ref = _covers_baseline().get(r.qual)
        now_ref = sum(1 for k in ends if cover_res[k][0] == "unsat")
        if base_ref is not None and now_ref > base_ref:
            undecided.append(f"{r.qual}: {now_ref} infeasible paths, {base_ref} on the unchanged tree - a path that could be executed is "
                             "contradictory now (possible vacuity: an unsupported comparison or a contradictory contract)")
        if not [vc for vc in r.vcs]:
            broken.append(f"{r.qual}: zero obligations generated")
        con_ = spec.CONTRACTS.get(r.qual)
        if con_ is not None and con_.ensures and not any(vc.kind == "post" for vc in r.vcs):
            undecided.append(f"{r.qual}: no path reaches the end of the function (postconditions never checked); notes: {r.notes[:2]}")
    can_by = {}
    for vc in can_vcs:
        can_by.setdefault(vc.name, []).append(vc)
    for nm, l in can_by.items():
        if not any(v.status == "failed" for v in l):
            broken.append(f"canary not refuted: {nm} (the encoding or an axiom is unsound, or the budget is too small)")
    if canq and not can_vcs:
        broken.append("canary functions produced no canary obligation")
    # ---- verdicts ---------------------------------------------------------------------------
    byname = {}
    for vc in vcs:
        byname.setdefault(vc.name, []).append(vc)
    failed, undec_ob = [], []
    for nm, l in sorted(byname.items()):
        sts = {v.status for v in l}
        if "failed" in sts:
            failed.append(nm)
        elif sts - {"discharged"}:
            undec_ob.append(nm)
    known = load_known()
    kf = [f for f in known.get("findings", []) if f["property"] == pid]
    known_ob = {f["obligation"]: f for f in kf if "obligation" in f}
    new_fail = [nm for nm in failed if nm not in known_ob]
    os.makedirs(os.path.join(VERIF, "evidence"), exist_ok=True)
    os.makedirs(os.path.join(VERIF, "replays"), exist_ok=True)
    out_lines = []
    # side checks registered for the property (bounded stand-ins, effect scans, ...)
    side = properties.run_side_checks(pid, tier, seed) if hasattr(properties, "run_side_checks") else []
    if tier == "thorough" and os.environ.get("PYVC_NO_SELFTEST") != "1":
        side.append(mutation_self_test(pid))
    for s_ in side:
        if s_["status"] == "violation":
            new_fail.append(s_["name"])
        elif s_["status"] == "undecided":
            undecided.append(s_["name"] + ": " + s_.get("detail", ""))
        elif s_["status"] == "broken":
            broken.append(s_["name"] + ": " + s_.get("detail", ""))
    violations = 0
    for nm in new_fail:
        l = byname.get(nm, [])
        rp = os.path.join(VERIF, "replays", f"{pid}-{abs(hash(nm)) % 10**8:08d}.json")
        rec = dict(property=pid, obligation=nm, where=[v.loc for v in l][:1], clause=[v.text for v in l][:1],
                   solver=[dict(path=v.path, status=v.status, reason=v.reason, model=v.model, backend=v.backend) for v in l if v.status != "discharged"],
                   replay=None)
        side_rec = [s_ for s_ in side if s_["name"] == nm]
        found = None
        if side_rec and side_rec[0].get("witness") is not None:
            found = side_rec[0]["witness"]
        elif not a.no_replay:
            found = properties.replay(pid, nm, rec, seed, tier)
        rec["replay"] = found
        json.dump(rec, open(rp, "w"), indent=1, default=str)
        violations += 1
        out_lines.append(f"VIOLATION property={pid} replay={rp}" + ("" if found else " obligation=" + nm + " no-failing-input-found"))
    for nm in failed:
        if nm in known_ob:
            out_lines.append(f"KNOWN-FINDING: property={pid} {known_ob[nm]['what']} [{nm}]")
    for s_ in side:
        for kfound in s_.get("known", []):
            out_lines.append(f"KNOWN-FINDING: property={pid} {kfound}")
    # ---- evidence ---------------------------------------------------------------------------
    n_ob = len(byname)
    n_dis = sum(1 for nm, l in byname.items() if all(v.status == "discharged" for v in l))
    backends = {}
    for vc in vcs:
        backends[vc.backend] = backends.get(vc.backend, 0) + 1
    inlined = sorted(set().union(*[r.inlined for r in results])) if results else []
    samples = [dict(obligation=nm, verdict=("discharged" if all(v.status == "discharged" for v in l) else "/".join(sorted({v.status for v in l}))),
                    vcs=len(l), seconds=round(sum(v.seconds for v in l), 3), clause=l[0].text, where=l[0].loc)
               for nm, l in sorted(byname.items())]
    level = meta["level"]
    # exploration-style counts of the bounded side checks (never counted as proved)
    side_cases = sum((s_.get("summary") or {}).get("cases", 0) + (s_.get("summary") or {}).get("scenarios", 0) for s_ in side)
    side_nontrivial = sum((s_.get("summary") or {}).get("nontrivial", 0) for s_ in side)
    side_samples = [x for s_ in side for x in ((s_.get("summary") or {}).get("samples") or [])][:8]
    ev = dict(
        property_id=pid, tier=tier, seed=seed, level=level,
        coverage=dict(
            obligations=n_ob, discharged=n_dis,
            checker_cmd=f"python3-vt -m pyvc.check {pid} --tier {tier}",
            trusted_base=trusted_base(results),
            functions_under_contract=quals,
            inlined_bodies=inlined,
            vcs=len(vcs), paths=sum(r.paths for r in results),
            backends=backends, solver_seconds=round(sum(v.seconds for v in vcs), 2),
            covers=dict(checked=len(cover_res), refuted=sum(1 for v in cover_res.values() if v[0] == "unsat")),
            canaries=dict(expected_to_fail=len(can_by), failed_as_expected=sum(1 for l in can_by.values() if any(v.status == "failed" for v in l))),
            failed=failed, undecided=undec_ob + undecided, known_findings=[f["what"] for f in kf],
            side_checks=[{k: v for k, v in s_.items() if k != "witness"} for s_ in side],
            dropped_by_extraction=properties.DROPPED,
            undecided_subclauses=meta.get("undecided_subclauses", []),
            bounded_parts=meta.get("bounded_parts", []),
            explanation=meta.get("explanation", ""),
            samples=(samples[:400] if samples else side_samples) if level == "proof" else (side_samples + samples[:60]),
            evaluations=side_cases + len(vcs), distinct_nontrivial=side_nontrivial + n_dis,
            rule="bounded part: cases generated by replay/battery.py (seeded configurations; non-trivial = the tree grew beyond its root) and "
                 "replay/bounded.py (exhaustive small inputs; non-trivial = the function had to choose / repair); proof part: one case per "
                 "verification condition, non-trivial = discharged obligation",
            notes=sorted({n for r in results for n in r.notes}),
        ),
        assumptions=meta.get("assumptions", []) + spec.TRUSTED,
        wall_s=round(time.time() - t0, 2), violations=violations,
    )
    json.dump(ev, open(os.path.join(VERIF, "evidence", f"{pid}.json"), "w"), indent=1)
    for ln in out_lines:
        print(ln)
    print(f"{pid}: {n_dis}/{n_ob} obligations discharged over {len(quals)} functions, {len(vcs)} VCs, "
          f"{len(failed)} failed ({len(failed) - len([n for n in failed if n not in known_ob])} known), "
          f"{len(undec_ob) + len(undecided)} undecided, {ev['wall_s']}s")
    if broken:
        for b in broken:
            print("CHECKER-BROKEN:", b)
        return 3
    if violations:
        return 1
    if undec_ob or undecided:
        for u in (undec_ob + undecided)[:20]:
            print("UNDECIDED:", u)
        return 2
    return 0


if __name__ == "__main__":
    sys.exit(main())
