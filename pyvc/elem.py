"""Coordinate view of NumPy ufunc code: arrays built only from ufuncs, np.where, np.clip and column slices of the
bounds are translated for ONE generic element (i, j); broadcasting of a length-d vector against an (n, d) array is
the assumed rule (DESIGN 4.1).  Two tiers: fp64 (bit-precise + - compare; np.mod / np.floor_divide through their
contracts) and real (mathematical reals, exact mod)."""
import z3

from . import smt
from .values import Ty, Unsupported, Val, vbool

FP = smt.FP64
RNE = smt.RNE


def tier(ex):
    return getattr(ex, "elem_tier", "fp64")


def sort(ex):
    return FP if tier(ex) == "fp64" else z3.RealSort()


def mk(ex, t):
    return Val(Ty("elem"), t)


def const(ex, x):
    if tier(ex) == "fp64":
        return z3.FPVal(float(x), FP)
    return z3.RealVal(x)


def lift(ex, v):
    """python/int/float scalar value -> element"""
    if v.ty.kind == "elem":
        return v.t
    if v.ty.kind == "int" and z3.is_int_value(v.t):
        return const(ex, v.t.as_long())
    if v.ty.kind == "fl":
        raise Unsupported("float scalar mixed with array elements")
    raise Unsupported(f"cannot use {v.ty} as an array element")


_UF = {}


def uf(name, *sorts):
    if name not in _UF:
        _UF[name] = z3.Function(name, *sorts)
    return _UF[name]


def binop(ex, op, a, b):
    x, y = lift(ex, a), lift(ex, b)
    fp = tier(ex) == "fp64"
    if op == "Add":
        return mk(ex, z3.fpAdd(RNE, x, y) if fp else x + y)
    if op == "Sub":
        return mk(ex, z3.fpSub(RNE, x, y) if fp else x - y)
    if op == "Mult":
        if fp:
            raise Unsupported("fp64 tier: multiplication is outside the bit-precise fragment (DESIGN 3.3)")
        return mk(ex, x * y)
    if op == "Mod":
        return npmod(ex, x, y)
    if op == "BitAnd":
        raise Unsupported("& on elements")
    raise Unsupported(f"element operation {op}")


def npmod(ex, x, r):
    """numpy.mod(x, r) for finite x and finite r > 0"""
    if tier(ex) == "fp64":
        f = uf("np_mod64", FP, FP, FP)
        m = f(x, r)
        zero = z3.FPVal(0.0, FP)
        # contract of numpy.mod (fmod + sign fix-up), r > 0 finite:  0 <= m <= r;  m == x when 0 <= x < r;
        # m == RN(x + r) when -r <= x < 0   (the only case where m can round up to r itself)
        ex.assume(z3.Implies(z3.And(z3.fpGT(r, zero), z3.Not(z3.fpIsInf(r)), z3.Not(z3.fpIsNaN(r)), z3.Not(z3.fpIsInf(x)), z3.Not(z3.fpIsNaN(x))),
                             z3.And(z3.fpLEQ(zero, m), z3.fpLEQ(m, r), z3.Not(z3.fpIsNaN(m)),
                                    z3.Implies(z3.And(z3.fpLEQ(zero, x), z3.fpLT(x, r)), m == x),
                                    z3.Implies(z3.And(z3.fpLT(x, zero), z3.fpLEQ(z3.fpNeg(r), x)), m == z3.fpAdd(RNE, x, r)))))
        return mk(ex, m)
    k = uf("np_floordiv_real", z3.RealSort(), z3.RealSort(), z3.IntSort())(x, r)
    m = x - z3.ToReal(k) * r
    ex.assume(z3.Implies(r > 0, z3.And(0 <= m, m < r)))
    return mk(ex, m)


def floor_divide(ex, x, r):
    if tier(ex) == "fp64":
        return Val(Ty("elemflips"), uf("np_floordiv64", FP, FP, FP)(x, r))
    return Val(Ty("elemflips"), uf("np_floordiv_real", z3.RealSort(), z3.RealSort(), z3.IntSort())(x, r))


def flips_mod2_is(ex, flips, c):
    """np.mod(flips, 2) == c  for the integer-valued quotient `flips`"""
    if tier(ex) == "fp64":
        return uf("np_isodd64", FP, z3.BoolSort())(flips.t) if c == 1 else z3.Not(uf("np_isodd64", FP, z3.BoolSort())(flips.t))
    return (flips.t % 2 == c)


def compare(ex, op, a, b):
    x, y = lift(ex, a), lift(ex, b)
    if tier(ex) == "fp64":
        t = {"Lt": z3.fpLT, "LtE": z3.fpLEQ, "Gt": z3.fpGT, "GtE": z3.fpGEQ, "Eq": z3.fpEQ, "NotEq": lambda p, q: z3.Not(z3.fpEQ(p, q))}[op](x, y)
    else:
        t = {"Lt": x < y, "LtE": x <= y, "Gt": x > y, "GtE": x >= y, "Eq": x == y, "NotEq": x != y}[op]
    return Val(Ty("elembool"), t)


def where(ex, c, a, b):
    ct = c.t if c.ty.kind in ("elembool", "bool") else None
    if ct is None:
        raise Unsupported("np.where condition")
    return mk(ex, z3.If(ct, lift(ex, a), lift(ex, b)))


def clip(ex, x, lo, hi):
    xv, l, h = lift(ex, x), lift(ex, lo), lift(ex, hi)
    if tier(ex) == "fp64":
        # numpy.clip = minimum(maximum(x, lo), hi) on non-NaN operands
        mx = z3.If(z3.fpLT(xv, l), l, xv)
        return mk(ex, z3.If(z3.fpGT(mx, h), h, mx))
    mx = z3.If(xv < l, l, xv)
    return mk(ex, z3.If(mx > h, h, mx))


def is_finite(ex, v):
    x = lift(ex, v)
    if tier(ex) == "fp64":
        return z3.And(z3.Not(z3.fpIsNaN(x)), z3.Not(z3.fpIsInf(x)))
    return z3.BoolVal(True)
