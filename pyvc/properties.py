"""Per-property metadata: level, assumptions, undecided sub-clauses, side checks, replay drivers."""
import json
import os
import subprocess

from . import REPO, VERIF

DROPPED = [
    "docstrings", "type annotations", "`# type: ignore` comments",
    "output of logger calls (self._logger / tree._logger): the calls are skipped, AbstractDeme.log is still executed",
    "__str__/__repr__ bodies", "characters of f-strings (kept as abstract concat/format terms over the interpolated values)",
    "*args/**kwargs pass-through parameters (modelled as absent; no call site in pyhms passes any)",
]

PROPS = {}


def prop(pid, level="proof", **kw):
    kw["level"] = level
    PROPS[pid] = kw


ORDER_TIER = "floats: order tier - IEEE comparisons exact (NaN, +-inf); + - * / on finite values are real arithmetic"
MODEL_NOTE = ("modular: callers are checked against callee contracts; dynamically dispatched calls use the abstract contract and every "
              "shipped override is separately proved to refine it; loops by invariants (no unrolling, no bound)")

prop("C16",
     level_text="every wrapper method (evaluate, worse_than, bounds, maximize of FunctionProblem, ProblemWrapper and the four decorators, "
                "get_function_problem) is proved, for all inputs and all heaps, to refine the abstract Problem contract assuming only that "
                "`_inner` satisfies it - the modular argument is the induction over nesting depth and order; the counter laws are "
                "postconditions of the real method bodies",
     level_note="trusted: the objective is a deterministic total function; closed world of Problem classes; chain axioms of the ghost "
                "functions in_chain/depth/inner; use_cache=False; order-tier floats",
     assumptions=[ORDER_TIER], undecided_subclauses=[])

prop("C07",
     level_text="the structure invariant (levels, root, per-deme level/index/id/class/start, parent<->child symmetry through ghost indices) is "
                "proved to be established by DemeTree.__init__ and preserved by _do_sprout (nested loop invariants), run_sprout, run_metaepoch, "
                "run_step and run; seed identity (the seed of a new deme is a candidate of its parent) is a postcondition of _do_sprout; "
                "child ids come from _next_child_id (mk_id over the level size, hence unique per level; id depth = level); "
                "AbstractDeme.__init__ and the constructors of all seven deme classes are proved to establish exactly the abstract "
                "constructor contract (ext.$DemeCtor) the tree relies on, and the SEA / DE / SHADE constructors to put an individual with "
                "the seed's genome into the initial population; the candidates get_seeds returns are individuals of their deme's current "
                "population (generator contract + only-removes filters)",
     level_note="the sampling closures (sample_uniform / sample_normal), engine factories and third-party constructors (cma, qmc) enter the "
                "constructors through trusted contracts; f-string ids modelled as a free term algebra; user class table keys disjoint from "
                "the built-in table; " + MODEL_NOTE,
     assumptions=["id strings are injective in (parent id, index) - free-algebra model of str()/f-strings",
                  "level configurations are sane: pop_size >= 1, generations >= 1, a seed for CMA-ES / local-search levels"],
     undecided_subclauses=[])

prop("C18",
     level_text="run_sprout: for every deme that was an active non-leaf when the round began, hibernating == (no sprout taken from it), demes "
                "created by the round are awake and active, no flag is written with the option off; tree.run_metaepoch: a hibernating deme is "
                "not stepped - its history length, activity flag and evaluation counter are unchanged (frame + loop invariant)",
     level_note="the seeds dictionary comes from the sprout mechanism's interface contract; " + MODEL_NOTE,
     assumptions=[],
     undecided_subclauses=["'a metaepoch never passes without an objective evaluation': holds only with probability 1 for SEA/DE/SHADE levels "
                           "(only changed rows are evaluated) and is false in the recorded finding D11 - not decided by contracts"])

prop("C05",
     level_text="run(): loop invariant metaepoch_count - entry == number of run_step calls, exit only on a true verdict with no evaluation "
                "since (ghost clock), exactly n for MetaepochLimit(n), zero for DontRun; run_step: +1, and no sprouting when the verdict "
                "observed after the metaepoch is true; each population deme consults the condition after every generation and returns at "
                "once on a true verdict (call-site obligation: no engine iteration is started after a true verdict); verdict clauses of "
                "the shipped stop conditions are proved against the spec views of the tree",
     level_note="user-defined stop conditions are assumed to satisfy the abstract contract (pure verdict); the stability lemma 'a true verdict "
                "stays true under Step' is argued in DESIGN.md and not mechanised; " + MODEL_NOTE,
     assumptions=[], undecided_subclauses=["stability of verdicts under further evaluation (per shipped condition) is a paper argument",
                                           "FitnessEvalLimitReached / FitnessSteadiness verdict clauses are not under contract"])

prop("C06",
     level_text="abstract AbstractDeme.run_metaepoch contract (one more history entry, recorded entries kept, active == not(gsc or lsc or "
                "engine stop), frame = own fields/own history/own wrapper) refined by the EA/DE/SHADE demes; DemeTree.run_metaepoch: every "
                "deme that was active and not hibernating advances by exactly one entry, every other deme is untouched, stopping is final; "
                "run_step: freshly sprouted demes have history length 1 (they run from the next metaepoch)",
     level_note="all seven deme classes (EA, DE, SHADE, CMA-ES, LHS, Sobol, local search) are proved to refine the abstract contract; each does so "
                "from the tree invariant alone: the class invariants of the deme classes are part of it (established by the constructors, kept by "
                "every run_metaepoch, preserved for the other demes by all tree-level functions); scipy.optimize.minimize and cma enter through interface contracts; " + MODEL_NOTE,
     assumptions=[], undecided_subclauses=[])

prop("C11",
     level_text="call-site obligation in every population deme: the parents handed to the engine are the previous generation (the last list "
                "appended in this metaepoch, or the current population for the first); engine contract: every returned individual equals a "
                "parent (genome and fitness) or was evaluated after the call began",
     level_note="the engine contracts (BaseSEA.run abstract, DE.run / SHADE.run trusted) are assumed; for CMA-ES the call-site obligation is "
                "'tell() is given exactly the genomes and (direction-adjusted) fitness values of the previous generation'; " + MODEL_NOTE,
     assumptions=[], undecided_subclauses=[])

prop("C03",
     level_text="wrapper counters (C16 laws), DemeTree.n_evaluations == sum over all demes of the deme's own wrapper count, eval-limit verdicts "
                "over that sum, per-deme count >= ghost clock increments through every engine iteration (clock = objective invocations)",
     level_note="exact equality 'count == invocations' additionally needs 'no cutoff wrapper has refused', carried as Transparent(); the local "
                "optimiser is covered through a client-loop model of scipy.optimize.minimize (it only calls fun and the callback; nfev is the "
                "number of fun calls - trusted): the deme's own counter is proved equal to its wrapper's; " + MODEL_NOTE,
     assumptions=[ORDER_TIER], undecided_subclauses=["minimize().nfev: see hms contracts"])

prop("C04",
     level_text="Individual ordering against the direction-aware spec order; AbstractDeme.best_individual / best_current_individual and "
                "DemeTree.best_individual: result is a member and no member is better (heap-function contracts, proved from the max() model)",
     level_note="'never gets worse' follows from 'histories only grow' (frames) on paper; budget-prefix clause undecided; " + MODEL_NOTE,
     assumptions=[ORDER_TIER, "individuals compared are evaluated (fitness not NaN) and share one direction"],
     undecided_subclauses=["for a fixed seed a larger maxfun replays the same evaluations as a prefix (two-run hyperproperty)"])

BATTERY = {"C01", "C02", "C03", "C04", "C05", "C06", "C07", "C08", "C09", "C11", "C12", "C13", "C14", "C18", "C20"}

KNOWN_PREDICATES = {
    # D11: the only active demes are all asleep (hibernation + a sprouting round that took nothing from them)
    "all_active_demes_hibernate": lambda w: bool(w.get("detail", {}).get("active")) and
    set(w["detail"].get("active", [])) <= set(w["detail"].get("hibernating", [])),
}


prop("C17",
     level_text="apply_bounds and its helper in the coordinate view (one generic element): fp64 tier (IEEE binary64, round-to-nearest-even) "
                "proves for every method that the result lies in [lower, upper] and that a coordinate already inside is returned unchanged "
                "(bit-exact identity); real tier proves how a moved coordinate is moved: clip -> nearest face, toroidal -> x minus a whole "
                "number of ranges, reflect -> +/-(x - lower) plus an even number of ranges",
     level_note="numpy.mod / floor_divide enter through their contracts (fp64: 0 <= m <= r, m == x for 0 <= x < r, m == RN(x + r) for "
                "-r <= x < 0); broadcasting rule assumed; inputs where x - lower or upper - lower overflow are excluded (NaN result)",
     assumptions=["IEEE-754 binary64 semantics of z3's FloatingPoint theory for + - and comparisons", "real arithmetic for the congruence clauses"],
     undecided_subclauses=["'up to a few ulps' is proved in the stronger form 'unchanged' for inside points"])


BOUNDED_NOTE = ("bounded stand-ins (replay/battery.py, replay/bounded.py) run the real code under CPython and are labelled bounded; "
                "they are not counted as proved")

prop("C01", level="other",
     explanation="proved: apply_bounds returns a point inside the box for every method and every finite input (fp64 tier, C17 obligations tagged C01). "
                 "bounded: every objective invocation / stored genome / seed / minimize() result inside the box over the scenario battery; the "
                 "multiplying kernels (arithmetic crossover, uniform / Gaussian mutation, LHS scaling) on an adversarial floating-point grid.",
     level_text="in-box step of bound repair proved bit-precisely; the chain 'every evaluation site receives an in-box genome' is checked by "
                "the bounded stand-ins only (the numeric kernels are outside the verifier's array theory)",
     level_note=BOUNDED_NOTE, assumptions=["cma / SciPy / qmc keep their iterates inside the bounds they are given"],
     undecided_subclauses=["precondition in_box at every evaluation call site is not discharged deductively"],
     bounded_parts=["battery::C01", "bounded::C01"])
prop("C02", level="other",
     explanation="proved: Individual.evaluate / evaluate_population (fitness is the objective value or the sentinel; evaluated individuals are not "
                 "re-evaluated), the abstract deme contract's clause 'recorded history entries are kept' with its frame, refined by the EA/DE/SHADE "
                 "demes. bounded: engines and population kernels on random objective tables; every stored individual against f(genome) and "
                 "history immutability over the scenario battery (this is where D4/D7 were found).",
     level_text="per-call contracts proved; array kernels and third-party optimisers covered by the bounded stand-ins", level_note=BOUNDED_NOTE,
     assumptions=["deterministic objective"], undecided_subclauses=["buffer ownership of NumPy arrays (genomes are values in the row view)"],
     bounded_parts=["battery::C02", "bounded::C02"])
prop("C08", level="other",
     explanation="proved: _do_sprout creates exactly one deme per candidate on the next level (loop hint h_level_lengths / invariant), run_metaepoch "
                 "and run_sprout's hibernation loop do not change the structure, stopping is final. bounded: LevelLimit never lets through more "
                 "candidates than free slots (exhaustive small candidate sets, several parents, ties, both directions); the number of active "
                 "demes per level against the limit at every stop-condition consultation of the scenario battery.",
     level_text="the counting bound of LevelLimit needs multiset lemmas (count under permutation / concatenation) that E-matching cannot "
                "discharge: bounded stand-in", level_note=BOUNDED_NOTE, assumptions=[], undecided_subclauses=["the global invariant count_active(level) <= L is not mechanised"],
     bounded_parts=["battery::C08", "bounded::C08"])
prop("C09", level="other",
     explanation="proved: AbstractDeme.centroid returns the mean of the deme's *current* population on every call (no stale value; numpy.mean "
                 "enters as the uninterpreted function MEANG of the population); FarEnough.__call__ and NBC_FarEnough.__call__: every candidate "
                 "they keep is farther than the threshold (min_distance, or factor x the parent's mean nearest-better distance) from the "
                 "current centroid of every deme of the target level that the filter considers (active ones; for NBC_FarEnough all unless "
                 "check_only_active) - nested loop invariants over the filtered sibling list. bounded: the same filters on random sibling "
                 "layouts (thresholds hit exactly), which also exercises the norm helper; centroid == mean for every deme at every "
                 "metaepoch boundary of the scenario battery.",
     level_text="centroid accessor and the distance clause of both filters proved; the norm comparison helpers (_is_far_enough, "
                "_is_nbc_far_enough: numpy.linalg.norm) have trusted value contracts and are covered by the bounded stand-in only",
     level_note=BOUNDED_NOTE,
     assumptions=["numpy.mean / numpy.linalg.norm are deterministic functions of their arguments (uninterpreted MEANG / DIST)"],
     undecided_subclauses=["the arithmetic inside the norm helpers"],
     bounded_parts=["battery::C09", "bounded::C09"])
prop("C10", level="other",
     explanation="proved: the abstract generator contract (candidates only from the current populations of active non-leaf demes of the tree) "
                 "refined by BestPerDeme (exactly one candidate per deme: a member of the current population that no member beats, in the "
                 "problem's direction) and NBC_Generator; the abstract filter contract 'only removes' (same dictionary, same records, every kept "
                 "individual was a candidate of the same deme) refined by DemeLimit (which also keeps exactly min(limit, available)), "
                 "LevelLimit, FarEnough and NBC_FarEnough; SproutMechanism.get_seeds / apply_deme_filters / apply_tree_filters for any chain of "
                 "filters (loop invariants), with every returned entry non-empty and every returned candidate from its deme's current "
                 "population (lemmas at the return statement). bounded: 'no dropped candidate is better than a kept one' for DemeLimit / "
                 "LevelLimit, LevelLimit filling exactly the free slots, SkipSameSprout, on exhaustively enumerated small candidate sets.",
     level_text="generators, filter chains and the only-removes part of four filters proved; the keep-the-best and counting clauses need "
                "permutation / counting lemmas (induction): bounded stand-in", level_note=BOUNDED_NOTE,
     assumptions=["NearestBetterClustering.cluster returns individuals of the clustered population (trusted; C15 is checked separately)",
                  ],
     undecided_subclauses=["keep-the-best for DemeLimit / LevelLimit", "LevelLimit fills exactly the free slots", "SkipSameSprout (NumPy)",
                           "NBCGeneratorWithLocalMethod is not under contract"],
     bounded_parts=["bounded::C10"])
prop("C12", level="other",
     explanation="proved: every population deme hands the previous generation to its engine (call-site obligation, shared with C11); engine "
                 "contract: same size. bounded: DE / SHADE / SEA engines on random objective tables (best and k-th best never worse, size), "
                 "generation sizes and elitism over the scenario battery.",
     level_text="chaining proved, per-engine order statistics bounded", level_note=BOUNDED_NOTE, assumptions=[], undecided_subclauses=[],
     bounded_parts=["battery::C12", "bounded::C12"])
prop("C13", level="other",
     explanation="proved: FunctionProblem.worse_than and every wrapper, Individual.__lt__, the deme / tree best accessors are direction-aware "
                 "(order == worse(dir, a, b)). bounded: topk, tournament, DemeLimit, LevelLimit, NBC on mirrored inputs; twin seeded runs "
                 "(f, maximize) vs (-f, minimize) for index-stable engine mixes in the scenario battery (found D6, D7, D8).",
     level_text="per-decision obligations proved for the ordering core; selection kernels and whole-run form bounded", level_note=BOUNDED_NOTE,
     assumptions=[], undecided_subclauses=["whole-run equality is a two-run hyperproperty: bounded twin runs only"],
     bounded_parts=["battery::C13", "bounded::C13"])
prop("C14", level="other",
     explanation="proved: DemeTree.__init__ seeds both global generators with the configured seed before the root deme is built (call-site "
                 "obligation on ghost generator state). bounded: two runs with the same seed from different prior generator states produce "
                 "identical trees over the scenario battery, in the same process and in two interpreter processes with different PYTHONHASHSEED. "
                 "A static scan lists every random / numpy.random / time / uuid / hash() / id() / set source in pyhms/** and compares it with "
                 "the list recorded on the unchanged tree (a new source makes the check undecided).",
     level_text="effect discipline partly proved, run equality bounded", level_note=BOUNDED_NOTE,
     assumptions=["NumPy / SciPy / cma are deterministic functions of their arguments and the global generator state"],
     undecided_subclauses=["run equality itself", "independence of PYTHONHASHSEED (no set / hash iteration found by the scan)"],
     bounded_parts=["battery::C14"])
prop("C15", level="exploration",
     level_text="bounded: NearestBetterClustering against an independent implementation of its definition on random populations (2-60 individuals, "
                "1-8 dimensions, uniform / clustered / collinear / converged, tied fitness), plus permutation, translation / scaling and "
                "mirror invariance", level_note=BOUNDED_NOTE + "; treelib and str-keyed node ids are outside the verifier",
     assumptions=[], undecided_subclauses=[], bounded_parts=["bounded::C15"])
prop("C20", level="exploration",
     level_text="bounded: summary() / tree() parsed and compared with the tree, accessors called twice with state snapshots and objective "
                "invocation counts before / after, over the scenario battery", level_note=BOUNDED_NOTE,
     assumptions=[], undecided_subclauses=[], bounded_parts=["battery::C20"])


def run_battery(pid, tier, seed, obligation="", ignore=""):
    drv = os.path.join(VERIF, "replay", "battery.py")
    try:
        p = subprocess.run(["/venv/bin/python", drv, pid, "--seed", str(seed), "--tier", tier] + (["--obligation", obligation] if obligation else [])
                           + (["--ignore", ignore] if ignore else []),
                           capture_output=True, text=True, timeout=1500 if tier == "quick" else 7200,
                           env=dict(os.environ, PYTHONPATH=REPO, PYVC_REPO=REPO))
    except subprocess.TimeoutExpired:
        return dict(status="undecided", detail="battery timed out")
    wit = summ = None
    for ln in p.stdout.splitlines():
        if ln.startswith("WITNESS "):
            wit = json.loads(ln[8:])
        elif ln.startswith("SUMMARY "):
            summ = json.loads(ln[8:])
    if wit is not None:
        return dict(status="violation", witness=wit)
    if summ is not None:
        return dict(status="ok", summary=summ)
    return dict(status="undecided", detail=("battery crashed: " + (p.stderr.strip().splitlines() or ["?"])[-1])[:300])


BOUNDED = {"C01", "C02", "C03", "C08", "C09", "C10", "C12", "C13", "C15", "C16", "C17"}


def run_bounded(pid, tier, seed):
    drv = os.path.join(VERIF, "replay", "bounded.py")
    try:
        p = subprocess.run(["/venv/bin/python", drv, pid, "--seed", str(seed), "--tier", tier], capture_output=True, text=True,
                           timeout=1500 if tier == "quick" else 7200, env=dict(os.environ, PYTHONPATH=REPO, PYVC_REPO=REPO))
    except subprocess.TimeoutExpired:
        return dict(status="undecided", detail="bounded harness timed out")
    for ln in p.stdout.splitlines():
        if ln.startswith("WITNESS "):
            return dict(status="violation", witness=json.loads(ln[8:]))
        if ln.startswith("SUMMARY "):
            return dict(status="ok", summary=json.loads(ln[8:]))
    return dict(status="undecided", detail=("bounded harness crashed: " + (p.stderr.strip().splitlines() or ["?"])[-1])[:300])


def run_side_checks(pid, tier, seed):
    """bounded stand-ins, labelled as such in the evidence: the scenario battery on the real code (CPython)"""
    out = []
    if pid == "C14":
        from . import effects
        now, base = effects.scan(), effects.baseline()
        rec = dict(name="effects::C14", kind="static scan of nondeterminism sources in pyhms/** (random, numpy.random, time, datetime, uuid, os "
                   "entropy, hash(), id(), set constructions, qmc / cma constructors), compared with the list recorded on the unchanged tree "
                   "(baseline/effects.json); a new source makes the check undecided, never a violation",
                   bound="syntactic: call sites by resolved import alias, keyed by file / enclosing function / callee", status="ok", known=[],
                   summary=dict(cases=len(now), nontrivial=len(now), samples=now[:8]))
        if base is None:
            rec.update(status="undecided", detail="baseline/effects.json is missing")
        else:
            new = sorted(set(now) - set(base))
            if new:
                rec.update(status="undecided", detail="nondeterminism source(s) not present on the unchanged tree: " + "; ".join(new[:6]))
        out.append(rec)
    if pid in BOUNDED and os.environ.get("PYVC_NO_BATTERY") != "1":
        res = run_bounded(pid, tier, seed)
        rec = dict(name=f"bounded::{pid}", kind="bounded: the real functions on exhaustively enumerated small inputs / an adversarial "
                   "floating-point grid, against predicates written from the property statement (replay/bounded.py)",
                   bound="candidate sets of up to 4-5 individuals with fitness values from a 3-4 element set (all combinations, ties included), "
                         "limits 1-3, 0-3 occupied slots, both directions; populations of up to 60 individuals in up to 8 dimensions "
                         "(uniform / clustered / collinear / converged); boxes with decimal, tiny and huge ranges, faces, ulp neighbours",
                   status=res["status"], known=[])
        if res["status"] == "violation":
            rec["witness"] = res["witness"]
            rec["detail"] = res["witness"].get("what", "")
        elif res["status"] == "ok":
            rec["summary"] = res["summary"]
        else:
            rec["detail"] = res.get("detail", "")
        out.append(rec)
    if pid in BATTERY and os.environ.get("PYVC_NO_BATTERY") != "1":
        kf = [f for f in json.load(open(os.path.join(VERIF, "known_findings.json"))).get("findings", [])
              if f["property"] == pid and f.get("check") == "battery"]
        known_lines, seeds_tried = [], [seed]
        res = run_battery(pid, tier, seed, ignore=",".join(f["predicate"] for f in kf))
        if res["status"] == "ok":
            for h in res["summary"].get("known_hits", []):
                f_ = kf[0]
                known_lines.append(f"{f_['what']} (first seen in scenario {h['kinds']}, seed {seed})")
                break
        name = f"battery::{pid}"
        rec = dict(name=name, kind="bounded: scenario battery on the real code under run-time monitors (replay/battery.py)",
                   bound=f"{14 if tier == 'quick' else 60} seeded configurations per run (1-3 levels, all engines, both sprout mechanisms, "
                         f"7 global and 5 local stop conditions, hibernation on/off, three boxes, both directions); seeds {seeds_tried}",
                   status=res["status"], known=sorted(set(known_lines)))
        if res["status"] == "violation":
            rec["witness"] = res["witness"]
            rec["detail"] = res["witness"].get("what", "")
        elif res["status"] == "ok":
            rec["summary"] = res.get("summary")
        else:
            rec["detail"] = res.get("detail", "")
        out.append(rec)
    return out


def replay(pid, obligation, rec, seed, tier):
    """run the scenario battery of the property on the real code (CPython, /venv) under run-time
    monitors; returns a witness dict or None"""
    if pid in BOUNDED:
        res = run_bounded(pid, tier, seed)
        if res["status"] == "violation":
            return res["witness"]
    if pid not in BATTERY:
        return None
    for k in range(2):
        res = run_battery(pid, tier, seed + 17 * k, obligation)
        if res["status"] == "violation":
            return res["witness"]
    return None

NOT_APPLICABLE = {
    "C19": "dump/load fidelity is a property of dill's serialisation of an object graph holding live cma/SciPy/structlog objects; "
           "the pyhms side is eight lines that delegate to dill: no contract on a pyhms function can express or decide it (DESIGN.md section 7)",
}
