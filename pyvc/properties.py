"""Per-property metadata: level, assumptions, undecided sub-clauses, side checks, replay drivers."""
import json
import os
import subprocess

from . import REPO, VERIF

DROPPED = [
    "docstrings", "type annotations", "`# type: ignore` comments",
    "output of logger calls (self._logger / tree._logger): the calls are skipped, AbstractDeme.log is still executed",
    "__str__/__repr__ bodies", "characters of f-strings (kept as abstract concat/format terms over the interpolated values)",
    "*args/**kwargs pass-through parameters (modelled as absent; no call site in pyhms passes any)",
]

PROPS = {}


def prop(pid, level="proof", **kw):
    kw["level"] = level
    PROPS[pid] = kw


prop("C16",
     level_text="every wrapper method (evaluate, worse_than, bounds, maximize of FunctionProblem, ProblemWrapper and the four decorators, "
                "get_function_problem) is proved, for all inputs and all heaps, to refine the abstract Problem contract assuming only that "
                "`_inner` satisfies it - the modular argument is the induction over nesting depth and order; the counter laws are "
                "postconditions of the real method bodies",
     level_note="trusted: the objective is a deterministic total function; closed world of Problem classes; chain axioms of the ghost "
                "functions in_chain/depth/inner; use_cache=False; order-tier floats",
     assumptions=["machine integers/floats: order tier (IEEE comparisons exact; + - * / on finite values are real arithmetic)"],
     undecided_subclauses=[],
     explanation="")


def run_side_checks(pid, tier, seed):
    return []


def replay(pid, obligation, rec, seed, tier):
    """run the scenario battery of the property on the real code (CPython, /venv) under run-time
    monitors; returns a witness dict or None"""
    drv = os.path.join(VERIF, "replay", "battery.py")
    if not os.path.exists(drv):
        return None
    try:
        p = subprocess.run(["/venv/bin/python", drv, pid, "--seed", str(seed), "--tier", tier, "--obligation", obligation],
                           capture_output=True, text=True, timeout=900 if tier == "quick" else 3600,
                           env=dict(os.environ, PYTHONPATH=REPO, PYVC_REPO=REPO))
    except subprocess.TimeoutExpired:
        return None
    for ln in p.stdout.splitlines():
        if ln.startswith("WITNESS "):
            try:
                return json.loads(ln[len("WITNESS "):])
            except Exception:
                return dict(raw=ln)
    return None

NOT_APPLICABLE = {
    "C19": "dump/load fidelity is a property of dill's serialisation of an object graph holding live cma/SciPy/structlog objects; "
           "the pyhms side is eight lines that delegate to dill: no contract on a pyhms function can express or decide it (DESIGN.md section 7)",
}
