"""pyvc - a small contract-based deductive verifier for the pyhms sources.

The verified text is the real AST of /repo/pyhms (re-read on every run); contracts are
sidecar files under /verif/contracts.  See /verif/DESIGN.md section 3.
"""
import os

REPO = os.environ.get("PYVC_REPO", "/repo")
VERIF = os.path.dirname(os.path.dirname(os.path.abspath(__file__)))
