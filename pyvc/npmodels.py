"""NumPy array theory as built-in contracts (DESIGN 4.1).  Filled in incrementally."""
import z3

from . import smt, spec, src
from .smt import BOOL, FL, INT, REF
from .values import T, Ty, Unsupported, Val, vbool, vfl, vint, vnone, vtuple


def binop(ex, op, a, b, fr, inplace=False, node=None):
    raise Unsupported(f"array arithmetic {op} on {a.ty}, {b.ty}")


def compare(ex, op, a, b, fr, node):
    raise Unsupported(f"array comparison {op} on {a.ty}, {b.ty}")


def subscript(ex, v, sl, fr, node):
    raise Unsupported(f"array subscript on {v.ty}")


def assign_subscript(ex, cont, tg, v, fr):
    raise Unsupported("array item assignment")


def getattr(ex, v, attr, fr, node):
    raise Unsupported(f"array attribute {attr}")


def call(ex, name, fv_, args, kwargs, fr, node):
    return NotImplemented


def length(ex, v):
    raise Unsupported("len of array")


def rows_as_list(ex, v, fr):
    raise Unsupported("iteration over array")


def invert(ex, v, fr):
    raise Unsupported("~ on " + str(v.ty))


def list_index_by_array(ex, v, iv, fr, node):
    raise Unsupported("list indexed by array")
