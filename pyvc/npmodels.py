"""NumPy array theory as built-in contracts (DESIGN 4.1).  Filled in incrementally."""
import z3

from . import smt, spec, src
from .smt import BOOL, FL, INT, REF
from .values import T, Ty, Unsupported, Val, vbool, vfl, vint, vnone, vtuple


import ast

from . import elem as E


def binop(ex, op, a, b, fr, inplace=False, node=None):
    ks = {a.ty.kind, b.ty.kind}
    if "elem" in ks and ks <= {"elem", "int"}:
        return E.binop(ex, op, a, b)
    if op == "BitAnd" and ks <= {"elembool"}:
        return Val(Ty("elembool"), z3.And(a.t, b.t))
    if "oarr" in ks and ks <= {"oarr", "fl", "int", "real"}:
        # opaque array arithmetic: a deterministic function of the operands (contents not modelled)
        code = {"Add": 1, "Sub": 2, "Mult": 3, "Div": 4, "Pow": 5}.get(op)
        if code is None:
            raise Unsupported(f"opaque array operator {op}")
        x, y = (v.t if v.ty.kind == "oarr" else smt.oarr_of_fl(ex.coerce(v, "fl").t) for v in (a, b))
        r = smt.oarr_bin(z3.IntVal(code), x, y)
        # NumPy broadcasting of the leading dimension: a vector / scalar counts as one row; the result has the larger row count
        rx = smt.oarr_rows(x) if a.ty.kind == "oarr" else z3.IntVal(1)
        ry = smt.oarr_rows(y) if b.ty.kind == "oarr" else z3.IntVal(1)
        ex.assume(smt.oarr_rows(r) == z3.If(rx >= ry, rx, ry))
        return Val(Ty("oarr"), r)
    raise Unsupported(f"array arithmetic {op} on {a.ty}, {b.ty}")


def compare(ex, op, a, b, fr, node):
    ks = {a.ty.kind, b.ty.kind}
    if "elem" in ks and ks <= {"elem", "int"}:
        return E.compare(ex, op, a, b)
    if a.ty.kind == "elemmod2" and b.ty.kind == "int" and op == "Eq":
        return Val(Ty("elembool"), E.flips_mod2_is(ex, a.meta["flips"], b.t.as_long()))
    raise Unsupported(f"array comparison {op} on {a.ty}, {b.ty}")


def subscript(ex, v, sl, fr, node):
    if v.ty.kind == "ebounds":
        # bounds[:, 0] / bounds[:, 1]: the lower / upper bound of the generic coordinate
        if isinstance(sl, ast.Tuple) and len(sl.elts) == 2 and isinstance(sl.elts[0], ast.Slice) and isinstance(sl.elts[1], ast.Constant):
            which = sl.elts[1].value
            if which in (0, 1):
                return Val(Ty("elem"), v.meta["lower" if which == 0 else "upper"])
        raise Unsupported("bounds subscript other than [:, 0] / [:, 1]")
    if v.ty.kind == "arr" and v.ty.cls == "B":
        # bounds[:, k]: a column of the (immutable) bounds array, as an opaque array value
        if isinstance(sl, ast.Tuple) and len(sl.elts) == 2 and isinstance(sl.elts[0], ast.Slice) and isinstance(sl.elts[1], ast.Constant) \
                and sl.elts[0].lower is None and sl.elts[0].upper is None and sl.elts[1].value in (0, 1):
            r = smt.oarr_col(v.t, z3.IntVal(sl.elts[1].value))
            ex.assume(smt.oarr_rows(r) == 1)          # a 1-D vector: one row for broadcasting
            return Val(Ty("oarr"), r)
    if v.ty.kind == "g" and not isinstance(sl, (ast.Slice, ast.Tuple)):
        j = ex.coerce(ex.ev(sl, fr), "int")
        return Val(Ty("fl"), smt.coord(v.t, j.t))          # one coordinate of a row
    raise Unsupported(f"array subscript on {v.ty}")


def assign_subscript(ex, cont, tg, v, fr):
    raise Unsupported("array item assignment")


def getattr(ex, v, attr, fr, node):
    if v.ty.kind == "g" and attr == "copy":
        return Val(Ty("fn"), name="g.copy", bound=v)       # genomes are values in the row view: a copy is the same value
    raise Unsupported(f"array attribute {attr}")


def call(ex, name, fv_, args, kwargs, fr, node):
    kinds = {a.ty.kind for a in args}
    if kinds & {"elem", "elemflips", "elembool", "elemmod2"}:
        if name == "numpy.clip":
            return E.clip(ex, args[0], args[1], args[2])
        if name == "numpy.where":
            return E.where(ex, args[0], args[1], args[2])
        if name == "numpy.floor_divide":
            return E.floor_divide(ex, E.lift(ex, args[0]), E.lift(ex, args[1]))
        if name == "numpy.mod":
            if args[0].ty.kind == "elemflips":
                return Val(Ty("elemmod2"), None, meta=dict(flips=args[0]))
            return E.npmod(ex, E.lift(ex, args[0]), E.lift(ex, args[1]))
        raise Unsupported(f"{name} on array elements")
    return NotImplemented


def length(ex, v):
    if v.ty.kind == "oarr":
        return vint(smt.oarr_rows(v.t))
    if v.ty.kind == "arr":
        return vint(ex.hmap("$alen", INT)[v.t])
    raise Unsupported("len of array")


def rows_as_list(ex, v, fr):
    if v.ty.kind == "arr" and v.ty.cls == "B":
        from .models import vlist
        j = z3.Int("j")
        return vlist(Ty("g"), ex.hmap("$alen", INT)[v.t], [z3.Lambda([j], smt.barr_row(v.t, j))])     # rows [lower_j, upper_j]
    if v.ty.kind == "oarr":
        from .models import vlist
        j = z3.Int("j")
        ex.assume(smt.oarr_rows(v.t) >= 0)
        return vlist(Ty("g"), smt.oarr_rows(v.t), [z3.Lambda([j], smt.oarr_row(v.t, j))])
    raise Unsupported("iteration over array")


def invert(ex, v, fr):
    raise Unsupported("~ on " + str(v.ty))


def list_index_by_array(ex, v, iv, fr, node):
    raise Unsupported("list indexed by array")
