"""Comprehensions.

Pure comprehensions are not loops: the result is a *value list* whose items are given by a
lambda over the source (no filter) or by the order-preserving selection functions src/rank with
the prefix-count CNT (filter), or by the lexicographic index structure oi/ii/pos (two `for`s).
The index structure of syntactically identical comprehensions over identical state is shared
(canonical symbols), which is what makes "the same query gives the same answer" provable.
Comprehensions whose element expression has effects (allocation, contracts that modify state)
are desugared to the loops they abbreviate and need sidecar invariants."""
import ast

import z3

from . import models, smt, spec, src
from .core import Frame, PathEnd
from .models import _sel, larrs, llen, litem, vlist
from .smt import BOOL, INT, REF
from .values import T, Ty, Unsupported, Val, vbool, vint, vtuple


class Impure(Exception):
    pass


_J = z3.Int("j")


def mk_lambda(jv, body):
    """abstract the (unique) evaluation variable jv under the canonical name j: alpha-equivalent
    element functions become syntactically equal"""
    return z3.Lambda([_J], z3.substitute(body, (jv, _J)))


def speceval_mentions(t, bvs):
    from .speceval import _mentions
    return _mentions(t, bvs)


def _pattern_subterm(t, a, b):
    """smallest select/application subterm mentioning both a and b and free of ite/arithmetic heads"""
    best = [None, 10 ** 9]

    def size(x):
        return len(x.sexpr())

    def ok(x):
        bad = (z3.Z3_OP_ITE, z3.Z3_OP_ADD, z3.Z3_OP_SUB, z3.Z3_OP_MUL, z3.Z3_OP_AND, z3.Z3_OP_OR, z3.Z3_OP_NOT, z3.Z3_OP_EQ,
               z3.Z3_OP_LE, z3.Z3_OP_LT, z3.Z3_OP_GE, z3.Z3_OP_GT, z3.Z3_OP_IMPLIES)
        stack = [x]
        while stack:
            y = stack.pop()
            if z3.is_quantifier(y):
                return False
            if z3.is_app(y):
                if y.decl().kind() in bad:
                    return False
                stack.extend(y.children())
        return True

    def walk(x):
        if not z3.is_app(x):
            return
        for c in x.children():
            walk(c)
        if x.num_args() > 0 and speceval_mentions(x, [a]) and speceval_mentions(x, [b]) and ok(x):
            sz = size(x)
            if sz < best[1]:
                best[0], best[1] = x, sz
    walk(t)
    return best[0]


def _strip(ex, mark, bvs):
    from .speceval import _mentions
    extra = ex.pc[mark:]
    del ex.pc[mark:]
    ex.pc.extend(x for x in extra if not _mentions(x, bvs))


def canon(ex, key, maker):
    c = getattr(ex, "_canon", None)
    if c is None:
        c = ex._canon = {}
    if key not in c:
        c[key] = maker()
    return c[key]


_K = [z3.Int("k0"), z3.Int("k1")]
HINT = z3.Function("hint", INT, BOOL)


def key_of(*parts):
    """canonical text of (bound vars, term) pairs: bound vars renamed to k0,k1"""
    out = []
    for p in parts:
        if isinstance(p, tuple):
            bvs, t = p
            t = z3.substitute(t, *[(b, k) for b, k in zip(bvs, _K)])
        else:
            t = p
        out.append(z3.simplify(t).sexpr())
    return "|".join(out)


def is_pure_expr(ex, node, fr):
    """syntactic purity: no construction, no calls except whitelisted pure ones"""
    for n in ast.walk(node):
        if isinstance(n, ast.Call):
            f = n.func
            nm = f.id if isinstance(f, ast.Name) else (f.attr if isinstance(f, ast.Attribute) else None)
            if nm in PURE_CALLS:
                continue
            if isinstance(f, ast.Name):
                v = fr.lookup(f.id)
                if v is None and f.id in src.CLASSES:
                    return False
            if nm in IMPURE_HINT:
                return False
            # method/property calls: decided dynamically (contracts with value= are pure)
        if isinstance(n, (ast.List, ast.Dict, ast.NamedExpr)):
            return False
    return True


PURE_CALLS = {"len", "isinstance", "isnan", "abs", "max", "min", "sum", "all", "any", "round", "int", "float", "str",
              "zip", "range", "enumerate", "reversed"}
IMPURE_HINT = {"evaluate", "append", "extend", "sort", "run", "run_metaepoch"}


def target_bind(ex, tg, v, fr):
    if isinstance(tg, ast.Name):
        fr.locals[tg.id] = v
    elif isinstance(tg, (ast.Tuple, ast.List)):
        if v.ty.kind != "tuple":
            raise Unsupported("comprehension target unpacking")
        for t, x in zip(tg.elts, v.items):
            target_bind(ex, t, x, fr)
    else:
        raise Unsupported("comprehension target")


def target_names(tg):
    return [n.id for n in ast.walk(tg) if isinstance(n, ast.Name)]


def listcomp(ex, e, fr, gen=False):
    gens = e.generators
    if len(gens) > 2:
        raise Unsupported("comprehension with more than two generators")
    pure = is_pure_expr(ex, e.elt, fr) and all(is_pure_expr(ex, c, fr) for g in gens for c in g.ifs)
    if pure or fr.spec:
        snap = (dict(ex.heap), ex.alloc, len(ex.pc), len(ex.obls), dict(fr.locals), list(ex.dec.trace), list(ex.dec.pending))
        # the (first) iterable is evaluated once, before any binder exists: contract calls in it are ordinary calls
        it0 = None
        if not fr.spec and not getattr(ex, "pure_depth", 0) and not fr.bound:
            it0 = ex.ev(gens[0].iter, fr)
        ex.pure_depth = getattr(ex, "pure_depth", 0) + 1
        try:
            if len(gens) == 1:
                return comp1(ex, e.elt, gens[0], fr, it0)
            return comp2(ex, e.elt, gens, fr)
        except Impure:
            if fr.spec:
                raise Unsupported("effectful comprehension in a specification")
            ex.heap, ex.alloc = snap[0], snap[1]
            del ex.pc[snap[2]:]
            del ex.obls[snap[3]:]
            fr.locals.clear()
            fr.locals.update(snap[4])
            ex.dec.trace[:] = snap[5]
            ex.dec.pending[:] = snap[6]
        finally:
            ex.pure_depth -= 1
    return desugar(ex, e, fr)


def comp1(ex, elt, g, fr, it0=None):
    src_l = models.as_list(ex, it0 if it0 is not None else ex.ev(g.iter, fr), fr, g.iter)
    n = llen(ex, src_l)
    saved = {k: fr.locals.get(k) for k in target_names(g.target)}
    j = z3.Int(f"cj!{next(ex.cnt)}")
    mark = len(ex.pc)
    try:
        if not g.ifs:
            target_bind(ex, g.target, litem(ex, src_l, j), fr)
            ev_ = ex.ev(elt, fr)
            _strip(ex, mark, [j])
            et, comps = _comps(ev_)
            arrs = [mk_lambda(j, ex.coerce(c, ct).t) for c, ct in zip(comps, et.comps())]
            return vlist(et, n, arrs, src=src_l)
        # filter
        i = z3.Int(f"ci!{next(ex.cnt)}")
        target_bind(ex, g.target, litem(ex, src_l, i), fr)
        cond_i = z3.And([ex.truth(ex.ev(c, fr)) for c in g.ifs])
        _strip(ex, mark, [i])
        key = key_of(n, ([i], cond_i))

        def mk():
            k = next(ex.cnt)
            return (z3.Function(f"src!{k}", INT, INT), z3.Function(f"rank!{k}", INT, INT), z3.Function(f"cnt!{k}", INT, INT))
        (srcf, rank, cnt), isnew = _canon2(ex, key, mk)
        C = lambda t: z3.substitute(cond_i, (i, t))
        m = cnt(n)
        if isnew:
            a, b = z3.Int(f"a?{next(ex.cnt)}"), z3.Int(f"b?{next(ex.cnt)}")
            ex.assume(cnt(0) == 0)
            # one-step recurrence, instantiated only between two existing terms (no matching loop)
            ex.assume(z3.ForAll([a, b], z3.Implies(z3.And(0 <= b, a == b + 1, a <= n),
                                                   cnt(a) == cnt(b) + z3.If(C(b), 1, 0)),
                                patterns=[z3.MultiPattern(cnt(a), cnt(b))], qid="comp_ax1"))
            ex.assume(z3.ForAll([a, b], z3.Implies(z3.And(0 <= a, a <= b, b <= n), cnt(a) <= cnt(b)),
                                patterns=[z3.MultiPattern(cnt(a), cnt(b))], qid="comp_ax2"))
            ex.assume(z3.ForAll([a], z3.Implies(z3.And(0 <= a, a <= n), z3.And(0 <= cnt(a), cnt(a) <= a, cnt(a) <= cnt(n))), patterns=[cnt(a)], qid="comp_ax3"))
            ex.assume(z3.ForAll([a], z3.Implies(z3.And(0 <= a, a < m),
                                                z3.And(0 <= srcf(a), srcf(a) < n, C(srcf(a)), rank(srcf(a)) == a, cnt(srcf(a)) == a)),
                                patterns=[srcf(a)], qid="comp_ax4"))
            ex.assume(z3.ForAll([a], z3.Implies(z3.And(0 <= a, a < n, C(a)),
                                                z3.And(0 <= rank(a), rank(a) < m, srcf(rank(a)) == a, rank(a) == cnt(a))),
                                patterns=[rank(a)], qid="comp_ax5"))
            ex.assume(z3.ForAll([a, b], z3.Implies(z3.And(0 <= a, a < b, b < m), srcf(a) < srcf(b)),
                                patterns=[z3.MultiPattern(srcf(a), srcf(b))], qid="comp_ax6"))
            ex.assume(z3.And(0 <= m, m <= n))
        target_bind(ex, g.target, litem(ex, src_l, srcf(j)), fr)
        mark2 = len(ex.pc)
        ev_ = ex.ev(elt, fr)
        _strip(ex, mark2, [j])
        et, comps = _comps(ev_)
        arrs = [mk_lambda(j, ex.coerce(c, ct).t) for c, ct in zip(comps, et.comps())]
        return vlist(et, m, arrs, src=src_l, srcf=srcf, rank=rank, cnt=cnt, cond=C)
    finally:
        for k, v in saved.items():
            if v is None:
                fr.locals.pop(k, None)
            else:
                fr.locals[k] = v


def _canon2(ex, key, mk):
    c = getattr(ex, "_canon", None)
    if c is None:
        c = ex._canon = {}
    if key in c:
        return c[key], False
    c[key] = mk()
    return c[key], True


def _is_arr_iter(ex, g, fr):
    return False


def _comps(v):
    if v.ty.kind == "tuple":
        return v.ty, v.items
    if v.ty.kind in ("fn", "cls", "mod", "lambda"):
        raise Unsupported("comprehension over function values")
    if v.ty.kind == "list" and models.is_virtual(v):
        raise Impure()
    return v.ty, [v]


def comp2(ex, elt, gens, fr):
    g1, g2 = gens
    if g1.ifs:
        raise Unsupported("filter on the outer generator")
    outer = models.as_list(ex, ex.ev(g1.iter, fr), fr, g1.iter)
    m = llen(ex, outer)
    names = target_names(g1.target) + target_names(g2.target)
    saved = {k: fr.locals.get(k) for k in names}
    a, b = z3.Int(f"ca!{next(ex.cnt)}"), z3.Int(f"cb!{next(ex.cnt)}")
    mark = len(ex.pc)
    try:
        target_bind(ex, g1.target, litem(ex, outer, a), fr)
        inner = models.as_list(ex, ex.ev(g2.iter, fr), fr, g2.iter)
        ilen_a = llen(ex, inner)
        target_bind(ex, g2.target, litem(ex, inner, b), fr)
        cond_ab = z3.And([ex.truth(ex.ev(c, fr)) for c in g2.ifs]) if g2.ifs else z3.BoolVal(True)
        ev_ = ex.ev(elt, fr)
        _strip(ex, mark, [a, b])
        et, comps = _comps(ev_)
        key = key_of(m, ([a], ilen_a), ([a, b], cond_ab))

        def mk():
            k = next(ex.cnt)
            return (z3.Function(f"oi!{k}", INT, INT), z3.Function(f"ii!{k}", INT, INT), z3.Function(f"pos!{k}", INT, INT, INT),
                    z3.Function(f"acc!{k}", INT, INT), z3.Function(f"cin!{k}", INT, INT, INT))
        (oi, ii, pos, acc, cin), isnew = _canon2(ex, key, mk)
        IL = lambda t: z3.substitute(ilen_a, (a, t))
        C = lambda t, u: z3.substitute(cond_ab, (a, t), (b, u))
        total = acc(m)
        if isnew:
            x, y, j, j2 = (z3.Int(f"{nm}?{next(ex.cnt)}") for nm in ("x", "y", "j", "k"))
            ex.assume(acc(0) == 0)
            x2, y2 = z3.Int(f"x2?{next(ex.cnt)}"), z3.Int(f"y2?{next(ex.cnt)}")
            ex.assume(z3.ForAll([x, x2], z3.Implies(z3.And(0 <= x2, x == x2 + 1, x <= m),
                                                    z3.And(acc(x) == acc(x2) + cin(x2, IL(x2)), IL(x2) >= 0)),
                                patterns=[z3.MultiPattern(acc(x), acc(x2))], qid="comp_ax7"))
            ex.assume(z3.ForAll([x, x2], z3.Implies(z3.And(0 <= x2, x2 <= x, x <= m), acc(x2) <= acc(x)),
                                patterns=[z3.MultiPattern(acc(x), acc(x2))], qid="comp_ax8"))
            ex.assume(z3.ForAll([x], z3.Implies(z3.And(0 <= x, x <= m), z3.And(0 <= acc(x), acc(x) <= total)), patterns=[acc(x)], qid="comp_ax9"))
            if not g2.ifs:
                ex.assume(z3.ForAll([x, y], cin(x, y) == y, patterns=[cin(x, y)], qid="comp_ax10"))
            else:
                ex.assume(z3.ForAll([x], cin(x, 0) == 0, patterns=[cin(x, 0)], qid="comp_ax11"))
                ex.assume(z3.ForAll([x, y, y2], z3.Implies(z3.And(0 <= x, x < m, 0 <= y2, y == y2 + 1, y <= IL(x)),
                                                           cin(x, y) == cin(x, y2) + z3.If(C(x, y2), 1, 0)),
                                    patterns=[z3.MultiPattern(cin(x, y), cin(x, y2))], qid="comp_ax12"))
                ex.assume(z3.ForAll([x, y], z3.Implies(z3.And(0 <= x, x < m, 0 <= y, y <= IL(x)),
                                                       z3.And(0 <= cin(x, y), cin(x, y) <= y, cin(x, y) <= cin(x, IL(x)))),
                                    patterns=[cin(x, y)], qid="comp_ax13"))
            ex.assume(z3.ForAll([j], z3.Implies(z3.And(0 <= j, j < total),
                                                z3.And(0 <= oi(j), oi(j) < m, 0 <= ii(j), ii(j) < IL(oi(j)), C(oi(j), ii(j)),
                                                       pos(oi(j), ii(j)) == j)),
                                patterns=[oi(j)], ))
            ex.assume(z3.ForAll([j], z3.Implies(z3.And(0 <= j, j < total),
                                                z3.And(0 <= ii(j), ii(j) < IL(oi(j)))),
                                patterns=[ii(j)], ))
            ex.assume(z3.ForAll([x, y], z3.Implies(z3.And(0 <= x, x < m, 0 <= y, y < IL(x), C(x, y)),
                                                   z3.And(0 <= pos(x, y), pos(x, y) < total, oi(pos(x, y)) == x, ii(pos(x, y)) == y,
                                                          pos(x, y) == acc(x) + cin(x, y))),
                                patterns=[pos(x, y)], qid="comp_ax14"))
            ex.assume(z3.ForAll([j, j2], z3.Implies(z3.And(0 <= j, j < j2, j2 < total),
                                                    z3.Or(oi(j) < oi(j2), z3.And(oi(j) == oi(j2), ii(j) < ii(j2)))),
                                patterns=[z3.MultiPattern(oi(j), oi(j2))], qid="comp_ax15"))
            ex.assume(total >= 0)
            ex.assume(z3.Implies(total > 0, HINT(oi(0))))
            # the element term is a second trigger of the pos axiom (a valid pair has a position)
            e0 = _pattern_subterm(ex.coerce(comps[-1], et.comps()[-1]).t, a, b)
            if e0 is not None and g2.ifs:
                ex.assume(z3.ForAll([x, y], z3.Implies(z3.And(0 <= x, x < m, 0 <= y, y < IL(x), C(x, y)),
                                                       z3.And(0 <= pos(x, y), pos(x, y) < total, oi(pos(x, y)) == x, ii(pos(x, y)) == y)),
                                    patterns=[z3.substitute(e0, (a, x), (b, y))], qid="comp_ax16"))
            # trigger hints (tautologies over an uninterpreted predicate): the last element
            ex.assume(z3.Implies(z3.And(m > 0, IL(m - 1) > 0), z3.And(HINT(pos(m - 1, IL(m - 1) - 1)), HINT(acc(m - 1)))))
        jj = z3.Int(f"cj!{next(ex.cnt)}")
        arrs = [mk_lambda(jj, z3.substitute(ex.coerce(c, ct).t, (a, oi(jj)), (b, ii(jj)))) for c, ct in zip(comps, et.comps())]
        return vlist(et, total, arrs, oi=oi, ii=ii, pos=pos, acc=acc, cin=cin, outer=outer, ilen=IL, cond2=C)
    finally:
        for k, v in saved.items():
            if v is None:
                fr.locals.pop(k, None)
            else:
                fr.locals[k] = v


# ---------------------------------------------------------------------------------------------
def desugar(ex, e, fr, kind="list"):
    """[E for x in A (for y in B) if C]  ==>  acc = []; for x in A: (for y in B:) if C: acc.append(E)"""
    con = fr.contract
    k = fr.loop_ord
    ls = con.loops.get(k, {}) if con else {}
    accname = ls.get("acc", f"_acc{k}")
    aty = ls.get("acc_type")
    if aty is None:
        raise Unsupported(f"effectful comprehension (loop #{k}) in {fr.fi.qual}: the contract must declare acc_type and an invariant")
    aty = T(aty)
    if kind == "list":
        fr.locals[accname] = ex.new_list(aty.args[0])
        body = ast.Expr(ast.Call(func=ast.Attribute(value=ast.Name(accname, ast.Load()), attr="append", ctx=ast.Load()),
                                 args=[e.elt], keywords=[]))
    else:
        fr.locals[accname] = models.new_dict(ex, aty.args[0], aty.args[1])
        body = ast.Assign(targets=[ast.Subscript(value=ast.Name(accname, ast.Load()), slice=e.key, ctx=ast.Store())], value=e.value)
    stmt = body
    for g in reversed(e.generators):
        for c in reversed(g.ifs):
            stmt = ast.If(test=c, body=[stmt], orelse=[])
        stmt = ast.For(target=g.target, iter=g.iter, body=[stmt], orelse=[])
    ast.fix_missing_locations(ast.copy_location(stmt, e))
    for n in ast.walk(stmt):
        if not hasattr(n, "lineno"):
            n.lineno = e.lineno
            n.col_offset = 0
    ex.exec_stmt(stmt, fr)
    return fr.locals[accname]


def dictcomp(ex, e, fr):
    g = e.generators[0]
    pure = len(e.generators) == 1 and is_pure_expr(ex, e.key, fr) and is_pure_expr(ex, e.value, fr) and \
        all(is_pure_expr(ex, c, fr) for c in g.ifs)
    if not pure:
        return desugar(ex, e, fr, kind="dict")
    # pure single-generator dict comprehension
    it = ex.ev(g.iter, fr)
    from_items = isinstance(g.iter, ast.Call) and isinstance(g.iter.func, ast.Attribute) and g.iter.func.attr == "items" \
        and isinstance(g.target, ast.Tuple) and isinstance(e.key, ast.Name) and isinstance(g.target.elts[0], ast.Name) \
        and e.key.id == g.target.elts[0].id
    src_l = models.as_list(ex, it, fr, g.iter)
    n = llen(ex, src_l)
    names = target_names(g.target)
    saved = {k: fr.locals.get(k) for k in names}
    i = z3.Int(f"ci!{next(ex.cnt)}")
    mark = len(ex.pc)
    try:
        target_bind(ex, g.target, litem(ex, src_l, i), fr)
        kv = ex.ev(e.key, fr)
        vv = ex.ev(e.value, fr)
        cond_i = z3.And([ex.truth(ex.ev(c, fr)) for c in g.ifs]) if g.ifs else z3.BoolVal(True)
        _strip(ex, mark, [i])
    finally:
        for k, v in saved.items():
            if v is None:
                fr.locals.pop(k, None)
            else:
                fr.locals[k] = v
    kt, vt = kv.ty, vv.ty
    d = models.new_dict(ex, kt, vt)
    p = models.dict_parts(ex, d)
    ks, vs = kt.sort(), vt.sort()
    if not from_items:
        # keys not known to be distinct: the result is an unconstrained well-formed dict (sound
        # over-approximation; every use in pyhms feeds an unobserved history)
        for nm, srt in (("$dlen", INT), ("$dkey", z3.ArraySort(INT, ks)), ("$dhas", z3.ArraySort(ks, BOOL)),
                        ("$dval", z3.ArraySort(ks, vs)), ("$didx", z3.ArraySort(ks, INT))):
            m = ex.hmap(nm, srt)
            ex.hset(nm, srt, z3.Store(m, d.t, ex.fresh(nm.strip("$"), m.sort().range())))
        ex.assume(models.dict_wf(ex, d))
        return d
    # {k: V for k, v in D.items() if C}: keys are D's keys (distinct) filtered by C, in order
    C = lambda t: z3.substitute(cond_i, (i, t))
    KEY = lambda t: z3.substitute(kv.t, (i, t))
    VAL = lambda t: z3.substitute(vv.t, (i, t))
    k_ = next(ex.cnt)
    srcf, rank, cnt = z3.Function(f"dsrc!{k_}", INT, INT), z3.Function(f"drank!{k_}", INT, INT), z3.Function(f"dcnt!{k_}", INT, INT)
    a, b = z3.Int(f"a?{next(ex.cnt)}"), z3.Int(f"b?{next(ex.cnt)}")
    m = cnt(n)
    ex.assume(cnt(0) == 0)
    # the same index structure as a filtering list comprehension (comp1): recurrences are instantiated only between two existing
    # terms, so there is no matching loop
    ex.assume(z3.ForAll([a, b], z3.Implies(z3.And(0 <= b, a == b + 1, a <= n), cnt(a) == cnt(b) + z3.If(C(b), 1, 0)),
                        patterns=[z3.MultiPattern(cnt(a), cnt(b))], qid="comp_ax17"))
    ex.assume(z3.ForAll([a, b], z3.Implies(z3.And(0 <= a, a <= b, b <= n), cnt(a) <= cnt(b)), patterns=[z3.MultiPattern(cnt(a), cnt(b))], qid="comp_ax18"))
    ex.assume(z3.ForAll([a], z3.Implies(z3.And(0 <= a, a <= n), z3.And(0 <= cnt(a), cnt(a) <= a, cnt(a) <= cnt(n))), patterns=[cnt(a)], qid="comp_ax19"))
    # split so that no instance creates a term that triggers the partner axiom again (for an index whose range is unknown the
    # chain srcf(rank(srcf(...))) would otherwise never end)
    ex.assume(z3.ForAll([a], z3.Implies(z3.And(0 <= a, a < m), z3.And(0 <= srcf(a), srcf(a) < n, C(srcf(a)))), patterns=[srcf(a)], qid="dcomp_src"))
    ex.assume(z3.ForAll([a], z3.Implies(z3.And(0 <= a, a < m), z3.And(rank(srcf(a)) == a, cnt(srcf(a)) == a)),
                        patterns=[rank(srcf(a)), cnt(srcf(a))], qid="dcomp_src_back"))
    ex.assume(z3.ForAll([a], z3.Implies(z3.And(0 <= a, a < n, C(a)), z3.And(0 <= rank(a), rank(a) < m, rank(a) == cnt(a))),
                        patterns=[rank(a)], qid="dcomp_rank"))
    ex.assume(z3.ForAll([a], z3.Implies(z3.And(0 <= a, a < n, C(a)), srcf(rank(a)) == a), patterns=[srcf(rank(a))], qid="dcomp_rank_back"))
    ex.assume(z3.ForAll([a, b], z3.Implies(z3.And(0 <= a, a < b, b < m), srcf(a) < srcf(b)), patterns=[z3.MultiPattern(srcf(a), srcf(b))], qid="comp_ax22"))
    ex.assume(z3.And(0 <= m, m <= n))
    sd = it.meta.get("dict") if it.meta else None
    # source dict parts (for has/idx of the result)
    srcdict = ex.ev(g.iter.func.value, fr)
    sp = models.dict_parts(ex, srcdict)
    sidx, shas = sp["didx"][srcdict.t], sp["dhas"][srcdict.t]
    kk = z3.Const(f"k?{next(ex.cnt)}", ks)
    j = z3.Int("j")
    ex.hset("$dlen", INT, z3.Store(ex.hmap("$dlen", INT), d.t, m))
    ex.hset("$dkey", z3.ArraySort(INT, ks), z3.Store(ex.hmap("$dkey", z3.ArraySort(INT, ks)), d.t, z3.Lambda([j], KEY(srcf(j)))))
    ex.hset("$dhas", z3.ArraySort(ks, BOOL), z3.Store(ex.hmap("$dhas", z3.ArraySort(ks, BOOL)), d.t,
                                                      z3.Lambda([kk], z3.And(shas[kk], C(sidx[kk])))))
    ex.hset("$dval", z3.ArraySort(ks, vs), z3.Store(ex.hmap("$dval", z3.ArraySort(ks, vs)), d.t, z3.Lambda([kk], VAL(sidx[kk]))))
    ex.hset("$didx", z3.ArraySort(ks, INT), z3.Store(ex.hmap("$didx", z3.ArraySort(ks, INT)), d.t, z3.Lambda([kk], rank(sidx[kk]))))
    return d
