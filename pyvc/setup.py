"""setup_cmd: nothing to build; verify the tooling is present and the contracts load."""
import sys

import z3

from . import REPO, spec, src


def main():
    src.load()
    spec.load_contracts()
    print("z3", z3.get_version_string(), "| python", sys.version.split()[0], "| modules", len(src.MODULES), "| contracts", len(spec.CONTRACTS))
    missing = [q for q, c in spec.CONTRACTS.items() if not q.startswith("ext.") and q.split("#")[0] not in src.FUNCS and not c.abstract]
    for m in missing:
        print("warning: contract for a function that is not in the current source:", m)
    return 0


if __name__ == "__main__":
    sys.exit(main())
