"""Symbolic executor over the real AST: one run = one path; forks re-execute (decision traces)."""
import ast
import os
import re
import itertools

import z3

from . import smt, spec, src
from .smt import BOOL, FL, INT, REF
from .values import T, Ty, Unsupported, Val, vbool, vfl, vint, vnone, vref, vstr, vtuple


# --------------------------------------------------------------------------------------------
class PathEnd(Exception):
    pass


class ReturnEx(Exception):
    def __init__(self, val):
        self.val = val


class BreakEx(Exception):
    pass


class ContinueEx(Exception):
    pass


class RaiseEx(Exception):
    def __init__(self, name, node=None):
        self.name = name
        self.node = node


class Obligation:
    __slots__ = ("name", "kind", "label", "tags", "pc", "goal", "loc", "path", "fnqual", "text", "site")

    def __init__(self, name, kind, label, tags, pc, goal, loc, path, fnqual, text="", site=""):
        self.name, self.kind, self.label, self.tags = name, kind, label, set(tags)
        self.pc, self.goal, self.loc, self.path, self.fnqual, self.text, self.site = pc, goal, loc, path, fnqual, text, site


class Decider:
    def __init__(self, prefix):
        self.prefix = list(prefix)
        self.trace = []
        self.pending = []

    def decide(self, n=2):
        if getattr(self, "owner", None) is not None and getattr(self.owner, "no_fork", 0) > 0:
            from .comps import Impure
            raise Impure()
        k = len(self.trace)
        if k < len(self.prefix):
            c = self.prefix[k]
        else:
            c = 0
            for alt in range(1, n):
                self.pending.append(self.trace + [alt])
        self.trace.append(c)
        return c


class Frame:
    def __init__(self, fi, locals_, self_val=None, cls=None, contract=None, parent_env=None):
        self.fi = fi
        self.locals = locals_
        self.self_val = self_val
        self.cls = cls                  # class whose method body this is (for super())
        self.contract = contract
        self.parent_env = parent_env    # closure environment (dict) chain
        self.loop_ord = 0
        self.comp_ord = 0
        self.spec = False
        self.old = None                 # (heap, alloc, locals) for old()
        self.result = None
        self.bound = {}                 # bound (quantified) variables
        self.depth = 0

    def lookup(self, name):
        if name in self.bound:
            return self.bound[name]
        if name in self.locals:
            return self.locals[name]
        e = self.parent_env
        while e is not None:
            if name in e["vars"]:
                return e["vars"][name]
            e = e.get("parent")
        return None


CLASS_IDS = {}
typeof = z3.Function("typeof", REF, INT)
DEME_CLASS_OF = z3.Function("deme_class_of", INT, INT)


def class_id(name):
    if not CLASS_IDS:
        for i, c in enumerate(sorted(src.CLASSES)):      # deterministic numbering, independent of the order of use
            CLASS_IDS[c] = i + 1
    if name not in CLASS_IDS:
        CLASS_IDS[name] = 1000 + len(CLASS_IDS)
    return CLASS_IDS[name]


def is_instance(t, cname):
    subs = src.subclasses(cname) if cname in src.CLASSES else [cname]
    if cname not in subs:
        subs = [cname] + subs
    return z3.Or([typeof(t) == class_id(s) for s in sorted(subs)])


def sort_key(sort):
    return str(sort)


# write sets of loop bodies, collected by a first exploration of all paths (run.verify_function): a heap map that no path
# through a loop body writes keeps its value across the loop, also for objects the function itself allocated
UPWARD = os.environ.get("PYVC_UPWARD", "1") == "1"
LOOP_MODE = ["use"]
LOOP_WRITES = {}


class Ex:
    """One symbolic execution of one path."""

    MAX_INLINE = 6

    def __init__(self, decider, fnqual):
        self.dec = decider
        decider.owner = self
        self.fnqual = fnqual
        self.cnt = itertools.count(1)
        self.heap = {}
        self.alloc = z3.Array("ALLOC", REF, BOOL)
        self.pc = []
        self.obls = []
        self.inlined = set()
        self.used_contracts = set()
        self.used_models = set()
        self.notes = []
        self.guard = []          # extra hypotheses while evaluating under a z3-level guard
        self.path_id = 0
        self.site_ctr = {}

    # ---- basic services ------------------------------------------------------------------
    def fresh(self, name, sort):
        return z3.Const(f"{name}!{next(self.cnt)}", sort)

    def fresh_fn(self, name, *sorts):
        return z3.Function(f"{name}!{next(self.cnt)}", *sorts)

    def fresh_val(self, name, ty):
        ty = T(ty)
        if ty.kind == "tuple":
            return vtuple([self.fresh_val(f"{name}_{i}", a) for i, a in enumerate(ty.args)])
        if ty.kind == "none":
            return vnone()
        v = Val(ty, self.fresh(name, ty.sort()))
        self.assume_type(v)
        return v

    def assume(self, t):
        if self.guard:
            t = z3.Implies(z3.And(self.guard), t)
        seen = self.__dict__.setdefault("_pc_ids", {})     # id -> term (keeps the term alive: ids are reused otherwise)
        i = t.get_id()
        if i in seen and not getattr(self, "binder_depth", 0) and not getattr(self, "pure_depth", 0):
            return
        seen[i] = t
        self.pc.append(t)

    def oblige(self, kind, label, goal, tags=(), loc="", text="", site=""):
        name = f"{self.fnqual}::{kind}{('#' + site) if site else ''}::{label}"
        pc = list(self.pc) + list(self.guard)
        self.obls.append(Obligation(name, kind, label, tags, pc, goal, loc, list(self.dec.trace), self.fnqual, text, site))

    def assume_type(self, v):
        ty = v.ty
        if ty.kind in ("ref",) and ty.cls and ty.cls in src.CLASSES and v.t is not None:
            if ty.exact:
                self.assume(z3.Or(v.t == 0, z3.And(self.alloc[v.t], typeof(v.t) == class_id(ty.cls))))
            else:
                self.assume(z3.Or(v.t == 0, z3.And(self.alloc[v.t], is_instance(v.t, ty.cls))))
        elif ty.is_heap and v.t is not None:
            self.assume(z3.Or(v.t == 0, self.alloc[v.t]))
            if ty.kind in ("list",) and ty.args:
                self.assume(z3.Or(v.t == 0, self.len_map(ty.args[0])[v.t] >= 0))
            if ty.kind == "arr":
                self.assume(z3.Or(v.t == 0, self.hmap("$alen", INT)[v.t] >= 0))
            if ty.kind == "dict":
                self.assume(z3.Or(v.t == 0, self.hmap("$dlen", INT)[v.t] >= 0))

    # ---- heap ----------------------------------------------------------------------------
    def hmap(self, field, sort):
        key = (field, sort_key(sort))
        if key not in self.heap:
            self.heap[key] = z3.Array(f"H_{field}_{sort_key(sort).replace(' ', '_').replace('(', '').replace(')', '')}", REF, sort)
            self.__dict__.setdefault("_init_ids", {})[key] = self.heap[key].get_id()
            self.__dict__.setdefault("_init_maps", {})[key] = self.heap[key]
            if getattr(self, "closure_on", False) and not getattr(self, "binder_depth", 0) and not getattr(self, "pure_depth", 0):
                self.closure_for(key)
            elif getattr(self, "closure_on", False):
                self.__dict__.setdefault("_closure_pending", []).append(key)
        return self.heap[key]

    def hset(self, field, sort, m):
        # passive form: every heap version is a constant with a defining equation (keeps terms and patterns small)
        if not z3.is_const(m) and not getattr(self, "binder_depth", 0) and not getattr(self, "pure_depth", 0):
            c = self.fresh(f"H_{field}_v", m.sort())
            self.pc.append(c == m)
            if UPWARD and field.startswith(("$it", "$len", "$d")) and z3.is_app(m) and m.decl().kind() == z3.Z3_OP_STORE \
                    and z3.is_const(m.arg(0)):
                # reads of the previous version carry over to the new one (for every other object): the array theory only walks from
                # a store *down* to its base, so a term about an untouched list in the old version would otherwise never meet the
                # quantifiers and goals stated over the new version
                o = z3.Const(f"up_o?{next(self.cnt)}", REF)
                self.pc.append(z3.ForAll([o], z3.Implies(o != m.arg(1), c[o] == m.arg(0)[o]), patterns=[m.arg(0)[o]],
                                         qid=f"upward_{re.sub(r'[^A-Za-z0-9_]', '_', field)}"))
            m = c
        self.heap[(field, sort_key(sort))] = m

    def rd(self, obj, field, ty):
        ty = T(ty)
        if ty.kind == "tuple":
            return vtuple([self.rd(obj, f"{field}${i}", a) for i, a in enumerate(ty.args)])
        t = self.hmap(field, ty.sort())[obj]
        v = Val(ty, t)
        self.assume_type(v)
        return v

    def wr(self, obj, field, val, ty=None):
        ty = T(ty) if ty is not None else val.ty
        if ty.kind == "tuple":
            for i, a in enumerate(ty.args):
                self.wr(obj, f"{field}${i}", val.items[i], a)
            return
        val = self.fit_list(val, ty)
        t = self.coerce(val, ty).t
        m = self.hmap(field, ty.sort())
        self.hset(field, ty.sort(), z3.Store(m, obj, t))

    def fit_list(self, val, ty):
        """a list value stored where a list of declared element type is expected"""
        if ty.kind == "list" and val.ty.kind == "list" and ty.args:
            if val.t is None:
                from . import models
                val = models.materialize(self, Val(Ty("list", args=[ty.args[0]]), None, meta=val.meta)) \
                    if self.part(val.ty.args[0]) == self.part(ty.args[0]) else val
                if val.t is None:
                    raise Unsupported(f"list of {val.ty.args[0]} stored as list of {ty.args[0]}")
                return val
            if not val.ty.args or self.part(val.ty.args[0]) != self.part(ty.args[0]):
                return self.retag(val, ty.args[0])
        return val

    def new_obj(self, name, cname=None):
        if getattr(self, "pure_depth", 0) > 0:
            from .comps import Impure
            raise Impure()
        r = self.fresh(name, REF)
        self.assume(r != 0)
        self.assume(z3.Not(self.alloc[r]))
        na = self.fresh("ALLOC_v", self.alloc.sort())
        self.pc.append(na == z3.Store(self.alloc, r, z3.BoolVal(True)))
        self.alloc = na
        if cname:
            self.assume(typeof(r) == class_id(cname))
        if (None, "$wowner") in spec.FIELD_TYPES:
            # ghost reference fields of a new object have their default value (None) until a ghost statement sets them
            self.assume(self.hmap("$wowner", REF)[r] == 0)
        return r

    def good_heap(self):
        """heap closure facts for every heap map version that does not have them yet"""
        for key in sorted(self.heap.keys()):
            self.closure_for(key)

    def closure_for(self, key):
        """well-formed-heap facts for the current version of one heap map: references stored in allocated objects
        (fields, list items, dict values) point to allocated objects of the declared class; list lengths are >= 0"""
        m = self.heap[key]
        done = self.__dict__.setdefault("_closure_done", {})
        if (key, m.get_id(), self.alloc.get_id()) in done:
            return
        done[(key, m.get_id(), self.alloc.get_id())] = (m, self.alloc)
        field, sk = key
        if field.startswith("$len<"):
            o3 = z3.Const(f"gh_o?{next(self.cnt)}", REF)
            self.pc.append(z3.ForAll([o3], m[o3] >= 0, patterns=[m[o3]], qid=f"good_heap_len_{next(self.cnt)}"))
            return
        if field.startswith("$it0<") and m.sort().range() == z3.ArraySort(INT, INT) and \
                field[5:].split("[")[0].split(":")[0].rstrip(">") in ("ref", "list", "arr", "dict"):
            part = field[5:-1]
            ln = self.hmap(f"$len<{part}>", INT)
            o = z3.Const(f"gh_o?{next(self.cnt)}", REF)
            i = z3.Const(f"gh_i?{next(self.cnt)}", INT)
            e = m[o][i]
            self.pc.append(z3.ForAll([o, i], z3.Implies(z3.And(self.alloc[o], 0 <= i, i < ln[o]), z3.Or(e == 0, self.alloc[e])),
                                     patterns=[e], qid=f"good_heap_{next(self.cnt)}"))
            return
        if field == "$dval" and m.sort().range() == z3.ArraySort(INT, INT):
            d_, k_ = z3.Const(f"gh_d?{next(self.cnt)}", REF), z3.Const(f"gh_k?{next(self.cnt)}", INT)
            has = self.hmap("$dhas", z3.ArraySort(INT, BOOL))
            v_ = m[d_][k_]
            self.pc.append(z3.ForAll([d_, k_], z3.Implies(z3.And(self.alloc[d_], has[d_][k_]),
                                                          z3.And(z3.Or(v_ == 0, self.alloc[v_]), z3.Or(k_ == 0, self.alloc[k_]))),
                                     patterns=[z3.MultiPattern(v_, has[d_][k_])], qid=f"good_heap_dict_{next(self.cnt)}"))
            return
        if field.startswith("$") or m.sort().range() != INT:
            return
        tys = {repr(ty) for (c, f), ty in spec.FIELD_TYPES.items() if f == field}
        if not tys or not all(ty.is_heap for (c, f), ty in spec.FIELD_TYPES.items() if f == field):
            return
        o2 = z3.Const(f"gh_o?{next(self.cnt)}", REF)
        facts = [self.alloc[m[o2]]]
        if len(tys) == 1:
            ty = next(ty for (c, f), ty in spec.FIELD_TYPES.items() if f == field)
            if ty.kind == "ref" and ty.cls in src.CLASSES:
                facts.append(typeof(m[o2]) == class_id(ty.cls) if ty.exact else is_instance(m[o2], ty.cls))
        self.pc.append(z3.ForAll([o2], z3.Implies(self.alloc[o2], z3.Or(m[o2] == 0, z3.And(facts))),
                                 patterns=[m[o2]], qid=f"good_heap_{field}_{next(self.cnt)}"))

    def snapshot(self):
        return (dict(self.heap), self.alloc)

    def stamp(self):
        """a ground term naming the current heap (same heap content -> same stamp)"""
        key = tuple(sorted((k[0], k[1], m.get_id()) for k, m in self.heap.items())) + (self.alloc.get_id(),)
        memo = self.__dict__.setdefault("_stamps", {})
        self.__dict__.setdefault("_stamp_keepalive", []).append((list(self.heap.values()), self.alloc))
        # maps that were created lazily but never written are the initial maps: ignore them in the key
        init = self.__dict__.setdefault("_init_ids", {})
        key = tuple(x for x in key if not (isinstance(x, tuple) and init.get((x[0], x[1])) == x[2]))
        if key not in memo:
            memo[key] = z3.IntVal(len(memo) + 1)
        return memo[key]

    # ---- coercions -----------------------------------------------------------------------
    def coerce(self, v, ty):
        ty = T(ty)
        k, vk = ty.kind, v.ty.kind
        if k == vk or (ty.is_heap and v.ty.is_heap):
            return v
        if k == "fl":
            if vk == "int":
                return vfl(smt.Fin(z3.ToReal(v.t)))
            if vk == "bool":
                return vfl(smt.Fin(z3.If(v.t, z3.RealVal(1), z3.RealVal(0))))
            if vk == "none":
                return vfl(smt.FNone)
            if vk == "real":
                return vfl(smt.Fin(v.t))
        if k == "oint":
            if vk == "int":
                return Val(ty, smt.OINT.ISome(v.t))
            if vk == "none":
                return Val(ty, smt.OINT.INone)
        if k == "int" and vk == "oint":
            return vint(smt.OINT.iv(v.t))
        if k == "og":
            if vk == "g":
                return Val(ty, smt.OG.GSome(v.t))
            if vk == "none":
                return Val(ty, smt.OG.GNone)
        if k == "g" and vk == "og":
            return Val(ty, smt.OG.gv(v.t))
        if k == "int" and vk == "bool":
            return vint(z3.If(v.t, 1, 0))
        if ty.is_heap and vk == "none":
            return Val(ty, z3.IntVal(0))
        if k == "none" and v.ty.is_heap:
            return v
        if k == "real" and vk == "fl":
            return Val(ty, smt.fv(v.t))
        if k == "real" and vk == "int":
            return Val(ty, z3.ToReal(v.t))
        if k == "any":
            return v
        if k == "ext" and vk == "cls":
            return Val(ty, z3.IntVal(500000 + class_id(v.name)), meta=dict(cls_value=v.name))    # a class object used as a factory value
        if k == "ref" and vk == "emptydict" and ty.cls and ty.cls.startswith("$"):
            return Val(ty, self.new_obj("emptymap", ty.cls))       # `{}` where an external mapping object is expected
        if k == "rec" and vk == "emptydict":
            # `{}` stored where a record dict (literal string keys) is expected: a new record without any of the declared keys
            r = self.new_obj("rec")
            for (c_, f_) in sorted(spec.FIELD_TYPES, key=str):
                if c_ == "$rec":
                    self.wr(r, f"has${f_}", vbool(False))
            return Val(Ty("rec"), r, meta=dict(keys={}))
        raise Unsupported(f"cannot coerce {v.ty} to {ty}")

    def truth(self, v):
        k = v.ty.kind
        if k in ("bool", "elembool"):
            return v.t
        if k == "int":
            return v.t != 0
        if k == "fl":
            return smt.fl_truthy(v.t)
        if k == "oint":
            return z3.And(smt.OINT.is_ISome(v.t), smt.OINT.iv(v.t) != 0)
        if k == "og":
            return smt.OG.is_GSome(v.t)
        if k == "none":
            return z3.BoolVal(False)
        if k == "list" and v.t is None:
            return v.meta["vlen"] > 0
        if k == "list":
            return z3.And(v.t != 0, self.len_map(v.ty.args[0])[v.t] > 0)
        if k == "arr":
            return z3.And(v.t != 0, self.hmap("$alen", INT)[v.t] > 0)
        if k == "dict":
            return z3.And(v.t != 0, self.hmap("$dlen", INT)[v.t] > 0)
        if k == "ref":
            # objects are truthy unless they define __bool__/__len__ (none in pyhms)
            return v.t != 0
        if k == "str":
            return v.t != smt.str_lit("")
        if k == "tuple":
            return z3.BoolVal(len(v.items) > 0)
        raise Unsupported(f"truth value of {v.ty}")

    # ---- lists ---------------------------------------------------------------------------
    @staticmethod
    def part(et):
        """type partition of a list's item maps: lists of differently typed elements cannot alias (their
        static types are the trusted sidecar types), so they live in different heap maps"""
        k = et.kind
        if k == "ref":
            c = et.cls
            if c in src.CLASSES:
                root = c
                for b_ in src.mro(c):
                    if b_ in src.CLASSES and b_ not in ("ABC", "Protocol"):
                        root = b_
                c = root
            return f"ref:{c}" if c else "ref"
        if k in ("list", "dict", "tuple"):
            return f"{k}[{','.join(Ex.part(a) for a in et.args)}]"
        if k == "arr":
            return f"arr:{et.cls}"
        return k

    def len_map(self, et):
        return self.hmap(f"$len<{self.part(et)}>", INT)

    def llen(self, lst):
        return self.len_map(lst.ty.args[0])[lst.t]

    def items_map(self, comp_idx, sort, et=None):
        return self.hmap(f"$it{comp_idx}<{self.part(et)}>", z3.ArraySort(INT, sort))

    def litem(self, lst, idx):
        """element `idx` (z3 Int, already normalised) of list value lst"""
        et = lst.ty.args[0] if lst.ty.args else None
        if et is None:
            raise Unsupported("list with unknown element type")
        comps = et.comps()
        vals = []
        for k, ct in enumerate(comps):
            m = self.items_map(k, ct.sort(), et)
            v = Val(ct, m[lst.t][idx])
            vals.append(v)
        if et.kind == "tuple":
            return vtuple(vals)
        return vals[0]

    def lset_items(self, lst, comp_vals_arrays):
        et = lst.ty.args[0]
        for k, ct in enumerate(et.comps()):
            m = self.items_map(k, ct.sort(), et)
            self.hset(f"$it{k}<{self.part(et)}>", z3.ArraySort(INT, ct.sort()), z3.Store(m, lst.t, comp_vals_arrays[k]))

    def litems_arrays(self, lst):
        et = lst.ty.args[0]
        return [self.items_map(k, ct.sort(), et)[lst.t] for k, ct in enumerate(et.comps())]

    def new_list(self, et, name="list"):
        r = self.new_obj(name)
        lst = Val(Ty("list", args=[et]), r)
        self.hset(f"$len<{self.part(et)}>", INT, z3.Store(self.len_map(et), r, z3.IntVal(0)))
        # ghost fields of a new list have their default values (no role, no owner) until a ghost statement sets them
        if (None, "$kind") in spec.FIELD_TYPES:
            self.assume(self.hmap("$kind", INT)[r] == 0)
        return lst

    def set_len(self, lst, n):
        et = lst.ty.args[0]
        self.hset(f"$len<{self.part(et)}>", INT, z3.Store(self.len_map(et), lst.t, n))

    def retag(self, lst, et):
        """an empty list literal gets its element type from its first use"""
        old = lst.ty.args[0] if lst.ty.args else Ty("any")
        if self.part(old) != self.part(et):
            if old.kind != "any":
                raise Unsupported(f"list of {old} used as list of {et}")
            n = self.len_map(old)[lst.t]
            lst.ty = Ty("list", args=[et])
            self.set_len(lst, n)
        else:
            lst.ty = Ty("list", args=[et])
        return lst

    def lappend(self, lst, v):
        et = lst.ty.args[0] if lst.ty.args else None
        if et is None or et.kind == "any":
            et = v.ty
            self.retag(lst, et)
        n = self.llen(lst)
        arrs = self.litems_arrays(lst)
        comps = et.comps()
        vs = v.items if et.kind == "tuple" else [v]
        vs = [self.fit_list(x, ct) if (ct.kind == "list" and x.ty.kind == "list") else x for x, ct in zip(vs, comps)]
        arrs = self.litems_arrays(lst)
        n = self.llen(lst)
        new = [z3.Store(a, n, self.coerce(x, ct).t) for a, x, ct in zip(arrs, vs, comps)]
        self.lset_items(lst, new)
        self.set_len(lst, n + 1)

    def elem_assume(self, v):
        """type facts about an element read from a list"""
        if v.ty.kind == "tuple":
            for x in v.items:
                self.elem_assume(x)
        else:
            self.assume_type(v)

    # ---- statements ----------------------------------------------------------------------
    def exec_block(self, stmts, fr):
        for s in stmts:
            self.exec_stmt(s, fr)

    def exec_stmt(self, s, fr):
        m = getattr(self, "st_" + type(s).__name__, None)
        if m is None:
            raise Unsupported(f"statement {type(s).__name__} at {src.loc(fr.fi, s)}")
        return m(s, fr)

    def st_Expr(self, s, fr):
        if isinstance(s.value, ast.Constant):
            return
        self.ev(s.value, fr)

    def st_Pass(self, s, fr):
        return

    def st_Import(self, s, fr):
        for a in s.names:
            fr.locals[a.asname or a.name.split(".")[0]] = Val(Ty("mod"), name=a.name if a.asname else a.name.split(".")[0])

    def st_ImportFrom(self, s, fr):
        raise Unsupported("local from-import")

    def st_Assign(self, s, fr):
        v = self.ev(s.value, fr)
        for tg in s.targets:
            self.assign(tg, v, fr)
            self.assign_hook(tg, fr, v)

    def st_AnnAssign(self, s, fr):
        if s.value is None:
            return
        v = self.ev(s.value, fr)
        self.assign(s.target, v, fr)
        self.assign_hook(s.target, fr, v)

    def assign_hook(self, tg, fr, v):
        con = fr.contract
        if con is None or not con.ghost_after or fr.fi is None or fr.fi.node is None or con.qual.split("#")[0] != fr.fi.qual:
            return
        nm = tg.attr if isinstance(tg, ast.Attribute) else (tg.id if isinstance(tg, ast.Name) else None)
        if nm is None:
            return
        tab = getattr(fr.fi, "_assign_ord", None)
        if tab is None:
            tab, counts = {}, {}
            nodes = [n for n in ast.walk(fr.fi.node) if isinstance(n, (ast.Assign, ast.AnnAssign, ast.AugAssign))]
            nodes.sort(key=lambda n: (n.lineno, n.col_offset))
            for n in nodes:
                for t in (n.targets if isinstance(n, ast.Assign) else [n.target]):
                    tn = t.attr if isinstance(t, ast.Attribute) else (t.id if isinstance(t, ast.Name) else None)
                    if tn is None:
                        continue
                    k = counts.get(tn, 0)
                    counts[tn] = k + 1
                    tab[id(t)] = f"assign:{tn}@{k}"
            fr.fi._assign_ord = tab
        for stmt in con.ghost_after.get(tab.get(id(tg)), []):
            self.ghost_exec(stmt, fr, v)

    def st_AugAssign(self, s, fr):
        cur = self.ev(s.target, fr)
        rhs = self.ev(s.value, fr)
        from . import models
        v = models.binop(self, type(s.op).__name__, cur, rhs, fr, inplace=True, node=s)
        if v is not None:
            self.assign(s.target, v, fr)
            self.assign_hook(s.target, fr, v)

    def st_Return(self, s, fr):
        v = self.ev(s.value, fr) if s.value is not None else vnone()
        con = fr.contract
        if con is not None and con.ghost_after and not fr.spec and fr.fi is not None and fr.fi.node is not None \
                and con.qual.split("#")[0] == fr.fi.qual:
            rets = sorted((n for n in ast.walk(fr.fi.node) if isinstance(n, ast.Return)), key=lambda n: (n.lineno, n.col_offset))
            k = [i for i, n in enumerate(rets) if n is s]
            for stmt in con.ghost_after.get(f"return@{k[0]}" if k else "return@?", []):
                self.ghost_exec(stmt, fr, v)          # `_call_result` is the value about to be returned
        raise ReturnEx(v)

    def st_Raise(self, s, fr):
        name = "Exception"
        e = s.exc
        if isinstance(e, ast.Call):
            e = e.func
        if isinstance(e, ast.Name):
            name = e.id
        raise RaiseEx(name, s)

    def st_Assert(self, s, fr):
        c = self.truth(self.ev(s.test, fr))
        if self.dec.decide(2) == 0:
            self.assume(c)
        else:
            self.assume(z3.Not(c))
            raise RaiseEx("AssertionError", s)

    def st_Break(self, s, fr):
        raise BreakEx()

    def st_Continue(self, s, fr):
        raise ContinueEx()

    def st_FunctionDef(self, s, fr):
        q = f"{fr.fi.qual}.<locals>.{s.name}"
        fi = src.FUNCS.get(q)
        if fi is None:
            raise Unsupported(f"nested def {q} not indexed")
        fr.locals[s.name] = Val(Ty("fn"), fn=fi, env=dict(vars=fr.locals, parent=fr.parent_env))

    def st_If(self, s, fr):
        c = self.cond(s.test, fr)
        if self.dec.decide(2) == 0:
            self.assume(c)
            self.exec_block(s.body, fr)
        else:
            self.assume(z3.Not(c))
            self.exec_block(s.orelse, fr)

    def st_Try(self, s, fr):
        # only `try: <stmts> except <Name>: pass` (clusterization.py); the handler is entered
        # when a modelled callee raises that exception.
        try:
            self.exec_block(s.body, fr)
        except RaiseEx as e:
            for h in s.handlers:
                if h.type is None or (isinstance(h.type, ast.Name) and h.type.id == e.name):
                    self.exec_block(h.body, fr)
                    break
            else:
                raise
        self.exec_block(s.orelse, fr)
        self.exec_block(s.finalbody, fr)

    def cond(self, test, fr):
        return self.truth(self.ev(test, fr))

    # ---- loops ---------------------------------------------------------------------------
    def loop_spec(self, fr):
        k = fr.loop_ord
        fr.loop_ord += 1
        con = fr.contract
        if con is None:
            raise Unsupported(f"loop #{k} in inlined function {fr.fi.qual}: needs a contract with an invariant")
        ls = con.loops.get(k)
        if ls is None:
            ls = dict(invariant=[])
        return k, ls

    def assigned_names(self, stmts):
        out = set()
        for st in stmts:
            for n in ast.walk(st):
                if isinstance(n, (ast.Assign,)):
                    for t in n.targets:
                        for x in ast.walk(t):
                            if isinstance(x, ast.Name):
                                out.add(x.id)
                elif isinstance(n, (ast.AugAssign, ast.AnnAssign)):
                    if isinstance(n.target, ast.Name):
                        out.add(n.target.id)
                elif isinstance(n, ast.NamedExpr):
                    out.add(n.target.id)
                elif isinstance(n, ast.For):
                    for x in ast.walk(n.target):
                        if isinstance(x, ast.Name):
                            out.add(x.id)
        return out

    def havoc_locals(self, names, fr, tag):
        for nm in sorted(names):
            v = fr.locals.get(nm)
            if v is None:
                continue
            fr.locals[nm] = self.havoc_val(v, f"{nm}_{tag}")

    def havoc_val(self, v, name):
        if v.ty.kind == "tuple":
            return vtuple([self.havoc_val(x, f"{name}_{i}") for i, x in enumerate(v.items)])
        if v.ty.kind in ("fn", "cls", "mod", "none"):
            return v
        nv = Val(v.ty, self.fresh(name, v.ty.sort()), meta=dict(v.meta))
        self.assume_type(nv)
        return nv

    def run_loop(self, fr, k, ls, guard_fn, body_fn, names, extra_locals=None, node=None):
        """Boogie-style loop: check invariant, havoc, assume invariant, then either take the
        body once and re-check, or leave."""
        from . import speceval
        inv = ls.get("invariant", [])
        loc = src.loc(fr.fi, node)
        entry = self.snapshot()
        entry_locals = dict(fr.locals)
        for c in inv:
            g = speceval.clause(self, c, fr, loop_entry=(entry, entry_locals))
            self.oblige("loop-init", c.label, g, c.tags, loc, c.text, site=str(k))
        # havoc
        mods = ls.get("modifies")
        con = fr.contract
        lkey = (fr.fi.qual if fr.fi else "?", k)
        local_frame = ls.get("local_frame")
        if local_frame is not None and ls.get("acc"):
            at_ = T(ls["acc_type"])
            local_frame = list(local_frame) + [(f"$list<{self.part(at_.args[0])}>", f"o == {ls['acc']}")]
        entry_alloc = self.alloc
        speceval.havoc(self, fr, mods if mods is not None else (con.modifies if con else []), f"loop{k}",
                       base_alloc=(fr.old[1] if fr.old is not None else None),
                       written=(None if LOOP_MODE[0] == "collect" else LOOP_WRITES.get(lkey, set())), collect=LOOP_MODE[0] == "collect",
                       local_frame=local_frame)
        head_maps = dict(self.heap)
        self.havoc_locals(names, fr, f"l{k}")
        if extra_locals:
            extra_locals(fr)
        for c in inv:
            self.assume(speceval.clause(self, c, fr, loop_entry=(entry, entry_locals)))
        branch = self.dec.decide(2)
        g = guard_fn(fr)
        if branch == 0:
            self.assume(g)
            saved_head = getattr(fr, "loop_head", None)
            fr.loop_head = (self.snapshot(), dict(fr.locals))
            try:
                try:
                    body_fn(fr)
                finally:
                    # which heap maps does the body write (directly, through callee frames, through inner loops)?
                    changed = {key for key, m in self.heap.items() if key not in head_maps or m.get_id() != head_maps[key].get_id()}
                    if LOOP_MODE[0] == "collect":
                        LOOP_WRITES.setdefault(lkey, set()).update(changed)
                    else:
                        extra_w = changed - LOOP_WRITES.get(lkey, set()) - set(getattr(self, "_loop_frame_keys", {}).get(lkey, ()))
                        if extra_w:
                            self.loop_write_escape = (lkey, sorted(extra_w))
            except ContinueEx:
                pass
            except BreakEx:
                fr.loop_head = saved_head
                return
            if local_frame is not None:
                speceval.loop_frame_obligations(self, fr, local_frame, head_maps, entry_alloc,
                                                fr.old[1] if fr.old is not None else None, loc, str(k),
                                                set(con.tags) if con is not None else set())
            # proof hints: lemmas proved at the end of the body, then available to the invariant obligations
            for c in ls.get("hints", []):
                gl = speceval.clause(self, c, fr, loop_entry=(entry, entry_locals))
                self.oblige("loop-hint", c.label, gl, c.tags, loc, c.text, site=str(k))
                self.assume(gl)
            for c in inv:
                gl = speceval.clause(self, c, fr, loop_entry=(entry, entry_locals))
                self.oblige("loop-step", c.label, gl, c.tags, loc, c.text, site=str(k))
            raise PathEnd()
        else:
            self.assume(z3.Not(g))

    def st_While(self, s, fr):
        k, ls = self.loop_spec(fr)
        names = self.assigned_names(s.body)

        def guard(fr):
            return self.cond(s.test, fr)

        def body(fr):
            self.exec_block(s.body, fr)

        if s.orelse:
            raise Unsupported("while/else")
        self.run_loop(fr, k, ls, guard, body, names, node=s)

    def iter_seq(self, it, fr, node):
        """Turn an iterable value into (length term, element function idx->Val)"""
        from . import models
        return models.iter_seq(self, it, fr, node)

    def st_For(self, s, fr):
        k, ls = self.loop_spec(fr)
        itv = self.ev(s.iter, fr)
        n, elem = self.iter_seq(itv, fr, s)
        names = self.assigned_names(s.body) | self.assigned_names([ast.Assign(targets=[s.target], value=ast.Constant(0))])
        idx_name = ls.get("index", f"_i{k}")
        seq_name = ls.get("seq")
        fr.locals[idx_name] = vint(0)
        if seq_name:
            fr.locals[seq_name] = itv
        if ls.get("seq_base"):          # the sequence a `reversed(...)` iterates over, un-reversed
            fr.locals[ls["seq_base"]] = itv.meta.get("rev_of", itv) if itv.meta else itv
            fr.locals["iter_reversed"] = vbool(bool(itv.meta and itv.meta.get("rev_of") is not None))
        if s.orelse:
            raise Unsupported("for/else")

        def extra(fr):
            i = self.fresh(idx_name, INT)
            fr.locals[idx_name] = Val(Ty("int"), i, meta=dict(nonneg=True))
            self.assume(i >= 0)
            self.assume(i <= n)

        def guard(fr):
            return fr.locals[idx_name].t < n

        def body(fr):
            i = fr.locals[idx_name].t
            ev_ = elem(i)
            self.elem_assume(ev_)
            self.assign(s.target, ev_, fr)
            try:
                self.exec_block(s.body, fr)
            except ContinueEx:
                pass
            fr.locals[idx_name] = vint(i + 1)

        self.run_loop(fr, k, ls, guard, body, names, extra_locals=extra, node=s)

    # ---- assignment ----------------------------------------------------------------------
    def assign(self, tg, v, fr):
        from . import models
        if isinstance(tg, ast.Name):
            con = fr.contract
            if con is not None and tg.id in con.locals and con.qual.split("#")[0] == (fr.fi.qual if fr.fi else None):
                ty = con.locals[tg.id]
                if ty.kind == "list" and v.ty.kind == "list":
                    v = self.fit_list(v, ty)
                elif ty.kind == "dict" and v.ty.kind == "emptydict":
                    v = models.new_dict(self, ty.args[0], ty.args[1])
                else:
                    v = self.coerce(v, ty)
            fr.locals[tg.id] = v
        elif isinstance(tg, ast.Attribute):
            obj = self.ev(tg.value, fr)
            if obj.ty.kind != "ref":
                raise Unsupported(f"attribute assignment on {obj.ty}")
            ft = spec.field_type(obj.ty.cls, tg.attr)
            if ft is None:
                ft = v.ty
                if ft.kind in ("fn", "cls", "mod"):
                    fr.locals[f"$attr:{tg.attr}"] = v   # function-valued attribute: remembered per path only
                    self.notes.append(f"attribute {obj.ty.cls}.{tg.attr} holds a function/class value: not stored on the symbolic heap")
                    return
                if ft.kind == "none":
                    raise Unsupported(f"field {obj.ty.cls}.{tg.attr} has no declared type")
                spec.FIELD_TYPES[(obj.ty.cls, tg.attr)] = ft
            self.wr(obj.t, tg.attr, v, ft)
        elif isinstance(tg, (ast.Tuple, ast.List)):
            if v.ty.kind != "tuple" or v.items is None:
                raise Unsupported("unpacking a non-tuple")
            if len(v.items) != len(tg.elts):
                raise Unsupported("unpacking arity")
            for t, x in zip(tg.elts, v.items):
                self.assign(t, x, fr)
        elif isinstance(tg, ast.Subscript):
            models.assign_subscript(self, tg, v, fr)
        else:
            raise Unsupported(f"assignment target {type(tg).__name__}")

    # ---- expressions ---------------------------------------------------------------------
    def ev(self, e, fr):
        m = getattr(self, "ev_" + type(e).__name__, None)
        if m is None:
            raise Unsupported(f"expression {type(e).__name__} at {src.loc(fr.fi, e)}")
        return m(e, fr)

    def ev_Constant(self, e, fr):
        v = e.value
        if isinstance(v, bool):
            return vbool(v)
        if isinstance(v, int):
            return vint(v)
        if isinstance(v, float):
            return vfl(smt.fl_const(v))
        if v is None:
            return vnone()
        if isinstance(v, str):
            return vstr(v)
        raise Unsupported(f"constant {v!r}")

    def ev_Name(self, e, fr):
        from . import models
        v = fr.lookup(e.id)
        if v is not None:
            return v
        if fr.spec and e.id == "result":
            return fr.result
        if fr.spec and e.id == "inf":
            return vfl(smt.PosInf)
        if fr.spec and e.id == "nan":
            return vfl(smt.NaN)
        r = src.resolve_global(fr.fi.module, e.id) if fr.fi else None
        if r is None and fr.spec:
            r = self.spec_global(e.id)
        if r is not None:
            if r[0] == "class":
                return Val(Ty("cls"), name=r[1].name)
            if r[0] == "func":
                return Val(Ty("fn"), fn=r[1])
            if r[0] == "module":
                return Val(Ty("mod"), name=r[1])
            if r[0] == "const":
                fr2 = Frame(_ModFi(r[2]), {}, None)
                fr2.spec = fr.spec
                return self.ev(r[1], fr2)
            if r[0] == "ext":
                return Val(Ty("fn"), name=r[1])
        if e.id in models.BUILTIN_NAMES:
            return Val(Ty("fn"), name=e.id)
        if e.id in src.CLASSES:
            return Val(Ty("cls"), name=e.id)
        raise Unsupported(f"unknown name {e.id} at {src.loc(fr.fi, e)}")

    def spec_global(self, name):
        if name in src.CLASSES:
            return ("class", src.CLASSES[name])
        return None

    def ev_NamedExpr(self, e, fr):
        v = self.ev(e.value, fr)
        fr.locals[e.target.id] = v
        return v

    def ev_Tuple(self, e, fr):
        return vtuple([self.ev(x, fr) for x in e.elts])

    def ev_UnaryOp(self, e, fr):
        v = self.ev(e.operand, fr)
        if isinstance(e.op, ast.Not):
            return vbool(z3.Not(self.truth(v)))
        if isinstance(e.op, ast.USub):
            if v.ty.kind == "int":
                return vint(-v.t)
            if v.ty.kind == "fl":
                return vfl(smt.fl_neg(v.t))
            if v.ty.kind == "real":
                return Val(v.ty, -v.t)
        if isinstance(e.op, ast.Invert):
            from . import models
            return models.invert(self, v, fr)
        raise Unsupported(f"unary {type(e.op).__name__} on {v.ty}")

    def has_effects(self, node):
        """conservative: does evaluating `node` possibly fork / call / allocate?"""
        for n in ast.walk(node):
            if isinstance(n, (ast.Call, ast.NamedExpr, ast.ListComp, ast.DictComp, ast.GeneratorExp, ast.List, ast.Dict)):
                if isinstance(n, ast.Call):
                    f = n.func
                    if isinstance(f, ast.Name) and f.id in ("len", "isinstance", "isnan", "abs"):
                        continue
                return True
            if isinstance(n, ast.Attribute):
                return True      # may be a property with a contract
        return False

    def try_pure(self, node, fr):
        """evaluate `node` if that needs no fork / allocation / state change; None otherwise (state restored)"""
        from .comps import Impure
        snap = (dict(self.heap), self.alloc, len(self.pc), len(self.obls), dict(fr.locals), list(self.dec.trace), list(self.dec.pending))
        self.pure_depth = getattr(self, "pure_depth", 0) + 1
        self.no_fork = getattr(self, "no_fork", 0) + 1
        try:
            v = self.ev(node, fr)
            if len(self.obls) != snap[3]:
                raise Impure()
            return v
        except Impure:
            self.heap, self.alloc = snap[0], snap[1]
            del self.pc[snap[2]:]
            del self.obls[snap[3]:]
            fr.locals.clear()
            fr.locals.update(snap[4])
            self.dec.trace[:] = snap[5]
            self.dec.pending[:] = snap[6]
            return None
        finally:
            self.pure_depth -= 1
            self.no_fork -= 1

    def ev_BoolOp(self, e, fr):
        is_and = isinstance(e.op, ast.And)
        if fr.spec:
            ts = [self.truth(self.ev(v, fr)) for v in e.values]
            return vbool(z3.And(ts) if is_and else z3.Or(ts))
        # Python returns an operand, not a bool; every use in pyhms is in boolean position or
        # an `x and y` of bools, so the result is modelled as the truth value.
        first = self.ev(e.values[0], fr)
        acc = self.truth(first)
        for nxt in e.values[1:]:
            pv = None
            if not self.has_effects(nxt):
                pv = self.ev(nxt, fr)
            elif not any(isinstance(n, ast.NamedExpr) for n in ast.walk(nxt)):
                pv = self.try_pure(nxt, fr)
            if pv is not None:
                t = self.truth(pv)
                acc = z3.And(acc, t) if is_and else z3.Or(acc, t)
            else:
                # short circuit with a possibly effectful operand: fork
                if self.dec.decide(2) == 0:
                    self.assume(acc if is_and else z3.Not(acc))
                    acc = self.truth(self.ev(nxt, fr))
                else:
                    self.assume(z3.Not(acc) if is_and else acc)
                    return vbool(not is_and)
        return vbool(acc)

    def ev_IfExp(self, e, fr):
        c = self.cond(e.test, fr)
        if fr.spec or not (self.has_effects(e.body) or self.has_effects(e.orelse)):
            a = self.ev(e.body, fr)
            b = self.ev(e.orelse, fr)
            return self.ite(c, a, b)
        if self.dec.decide(2) == 0:
            self.assume(c)
            return self.ev(e.body, fr)
        self.assume(z3.Not(c))
        return self.ev(e.orelse, fr)

    def ite(self, c, a, b):
        if a.ty.kind == "tuple" and b.ty.kind == "tuple":
            return vtuple([self.ite(c, x, y) for x, y in zip(a.items, b.items)])
        ty = self.join_ty(a.ty, b.ty)
        a2, b2 = self.coerce(a, ty), self.coerce(b, ty)
        return Val(ty, z3.If(c, a2.t, b2.t), meta=a.meta)

    def join_ty(self, a, b):
        if a == b:
            return a
        if a.kind == "none":
            if b.kind == "int":
                return Ty("oint")
            if b.kind == "g":
                return Ty("og")
            return b
        if b.kind == "none":
            if a.kind == "int":
                return Ty("oint")
            if a.kind == "g":
                return Ty("og")
            return a
        if a.is_heap and b.is_heap:
            if a.kind == b.kind:
                if a.kind == "ref" and a.cls != b.cls:
                    for c in src.mro(a.cls) if a.cls in src.CLASSES else []:
                        if b.cls in src.CLASSES and c in src.mro(b.cls):
                            return Ty("ref", cls=c)
                    return Ty("ref")
                return a if a.args else b
            return Ty("ref")
        if {a.kind, b.kind} <= {"int", "fl", "bool"}:
            return Ty("fl") if "fl" in (a.kind, b.kind) else Ty("int")
        if {a.kind, b.kind} == {"int", "oint"}:
            return Ty("oint")
        if {a.kind, b.kind} <= {"g", "og", "none"}:
            return Ty("og")
        raise Unsupported(f"cannot join types {a} and {b}")

    def ev_Compare(self, e, fr):
        from . import models
        left = self.ev(e.left, fr)
        res = []
        for op, rn in zip(e.ops, e.comparators):
            right = self.ev(rn, fr)
            res.append(models.compare(self, type(op).__name__, left, right, fr, e))
            left = right
        if len(res) == 1:
            return res[0]
        return vbool(z3.And([self.truth(r) for r in res]))

    def ev_BinOp(self, e, fr):
        from . import models
        a = self.ev(e.left, fr)
        b = self.ev(e.right, fr)
        return models.binop(self, type(e.op).__name__, a, b, fr, node=e)

    def ev_Attribute(self, e, fr):
        from . import models
        v = self.ev(e.value, fr)
        return self.getattr(v, e.attr, fr, e)

    def getattr(self, v, attr, fr, node=None):
        from . import models
        k = v.ty.kind
        if k == "ref":
            cls = v.ty.cls
            fi = src.resolve_method(cls, attr) if cls in src.CLASSES else None
            if fi is not None:
                if fi.kind == "property":
                    return self.call_method(v, attr, [], {}, fr, node)
                return Val(Ty("fn"), fn=fi, bound=v, name=attr)
            if attr == "__dict__":
                return Val(Ty("objdict"), v.t, meta=dict(cls=cls, over={}))
            if attr == "__class__":
                return Val(Ty("clsof"), v.t)
            ft = spec.field_type(cls, attr)
            if ft is None:
                # an attribute that some subclass defines as method/property (dynamic dispatch)
                for sc in (src.subclasses(cls) if cls in src.CLASSES else []):
                    f2 = src.resolve_method(sc, attr)
                    if f2 is not None:
                        if f2.kind == "property":
                            return self.call_method(v, attr, [], {}, fr, node)
                        return Val(Ty("fn"), fn=f2, bound=v, name=attr)
                fv_ = fr.locals.get(f"$attr:{attr}")
                if fv_ is not None:
                    return fv_
                raise Unsupported(f"field {cls}.{attr} has no declared type ({src.loc(fr.fi, node)})")
            if not fr.spec and cls in src.CLASSES:
                self.field_reads = getattr(self, "field_reads", set())
                self.field_reads.add((cls, attr))
            if ft.kind == "ext":
                return Val(ft, v.t, meta=dict(holder_cls=cls, attr=attr))
            return self.rd(v.t, attr, ft)
        return models.getattr_builtin(self, v, attr, fr, node)

    def ev_Subscript(self, e, fr):
        from . import models
        v = self.ev(e.value, fr)
        return models.subscript(self, v, e.slice, fr, e)

    def call_ordinal(self, fr, e):
        """static ordinal of call site `e` among the calls with the same callee name in fr.fi"""
        tab = getattr(fr.fi, "_call_ord", None)
        if tab is None:
            tab, counts = {}, {}
            calls = [n for n in ast.walk(fr.fi.node) if isinstance(n, ast.Call)]
            calls.sort(key=lambda n: (n.lineno, n.col_offset))
            for n in calls:
                f = n.func
                nm = f.attr if isinstance(f, ast.Attribute) else (f.id if isinstance(f, ast.Name) else None)
                if nm is None:
                    continue
                k = counts.get(nm, 0)
                counts[nm] = k + 1
                tab[id(n)] = f"{nm}@{k}"
            fr.fi._call_ord = tab
        return tab.get(id(e))

    def ev_Call(self, e, fr):
        r = self.ev_Call0(e, fr)
        con = fr.contract
        if con is not None and con.ghost_after and not fr.spec and fr.fi is not None and fr.fi.node is not None \
                and con.qual.split("#")[0] == fr.fi.qual:
            key = self.call_ordinal(fr, e)
            for stmt in con.ghost_after.get(key, []):
                self.ghost_exec(stmt, fr, r)
        return r

    def ghost_exec(self, text, fr, last_result):
        """ghost statement:  setg(obj, '$field', value)  evaluated in specification mode"""
        node = ast.parse(" ".join(text.split()), mode="eval").body
        if isinstance(node, ast.Call) and isinstance(node.func, ast.Name) and node.func.id == "setg_all":
            return self.ghost_setall(node, fr)
        if isinstance(node, ast.Call) and isinstance(node.func, ast.Name) and node.func.id == "lemma":
            # lemma("label", <formula>): an intermediate assertion - proved here (obligation of kind `lemma`), then available
            from . import speceval
            label = node.args[0].value
            tags_ = node.args[2].value if len(node.args) > 2 else (" ".join(sorted(fr.contract.tags)) if fr.contract else "")
            c = spec.Clause(label, ast.unparse(node.args[1]), tags_)
            saved = fr.locals.get("_call_result")
            fr.locals["_call_result"] = last_result
            try:
                g = speceval.clause(self, c, fr)
            finally:
                if saved is None:
                    fr.locals.pop("_call_result", None)
                else:
                    fr.locals["_call_result"] = saved
            self.oblige("lemma", label, g, c.tags, "", c.text)
            self.assume(g)
            return
        if not (isinstance(node, ast.Call) and isinstance(node.func, ast.Name) and node.func.id == "setg"):
            raise Unsupported(f"ghost statement {text!r}")
        was = fr.spec
        fr.spec = True
        saved = fr.locals.get("_call_result")
        fr.locals["_call_result"] = last_result
        try:
            obj = self.ev(node.args[0], fr)
            val = self.ev(node.args[2], fr)
        finally:
            fr.spec = was
            if saved is None:
                fr.locals.pop("_call_result", None)
            else:
                fr.locals["_call_result"] = saved
        fname = node.args[1].value
        ft = spec.field_type(None, fname)
        if ft is None or fname not in spec.GHOST_FIELDS:
            raise Unsupported(f"ghost field {fname} not declared")
        self.wr(obj.t, fname, val, ft)

    def ghost_setall(self, node, fr):
        """setg_all(lambda k: obj(k), '$field', lambda k: value(k), lo, hi): quantified ghost assignment.
        Emits the injectivity obligation that makes it well defined."""
        from . import speceval
        objl, fname, vall, lo, hi = node.args[0], node.args[1].value, node.args[2], node.args[3], node.args[4]
        ft = spec.field_type(None, fname)
        was = fr.spec
        fr.spec = True
        try:
            lo_t, hi_t = self.ev(lo, fr).t, self.ev(hi, fr).t
            k1, k2 = z3.Int(f"gk1?{next(self.cnt)}"), z3.Int(f"gk2?{next(self.cnt)}")

            def at(lam, k):
                saved = dict(fr.bound)
                fr.bound[lam.args.args[0].arg] = vint(k)
                self.binder_depth = getattr(self, "binder_depth", 0) + 1
                mark = len(self.pc)
                try:
                    return self.ev(lam.body, fr)
                finally:
                    self.binder_depth -= 1
                    del self.pc[mark:]
                    fr.bound = saved
            o1, o2 = at(objl, k1), at(objl, k2)
            v1 = self.coerce(at(vall, k1), ft)
        finally:
            fr.spec = was
        inr = lambda k: z3.And(lo_t <= k, k < hi_t)
        self.oblige("ghost", f"setg_all_{fname.strip('$')}_injective",
                    z3.ForAll([k1, k2], z3.Implies(z3.And(inr(k1), inr(k2), k1 != k2), o1.t != o2.t)), (), "", "ghost assignment well defined")
        m = self.hmap(fname, ft.sort())
        nm = self.fresh(f"H_{fname}_g", m.sort())
        o = z3.Const(f"o?{next(self.cnt)}", REF)
        self.assume(z3.ForAll([k1], z3.Implies(inr(k1), nm[o1.t] == v1.t)))
        self.assume(z3.ForAll([o], z3.Implies(z3.Not(z3.Exists([k1], z3.And(inr(k1), o == o1.t))), nm[o] == m[o]), patterns=[nm[o]]))
        self.hset(fname, ft.sort(), nm)

    def ev_Call0(self, e, fr):
        from . import models, speceval
        # spec-language forms
        if fr.spec and isinstance(e.func, ast.Name):
            r = speceval.spec_call(self, e, fr)
            if r is not NotImplemented:
                return r
        # super().m(...)
        f = e.func
        if isinstance(f, ast.Attribute) and isinstance(f.value, ast.Call) and isinstance(f.value.func, ast.Name) \
                and f.value.func.id == "super":
            args, kwargs = self.ev_args(e, fr)
            fi = src.resolve_method(fr.self_val.ty.cls if False else fr.cls, f.attr, after=fr.cls)
            if fi is None:
                if f.attr == "__init__":
                    return vnone()          # object.__init__ / ABC.__init__ / Protocol
                raise Unsupported(f"super().{f.attr} not found after {fr.cls}")
            return self.call_function(fi, fr.self_val, args, kwargs, fr, e, static=True)
        # method call on a value: keeps the receiver for dispatch
        if isinstance(f, ast.Attribute):
            recv = self.ev(f.value, fr)
            if recv.ty.kind == "ref" and recv.ty.cls == "$Logger":
                self.ev_args(e, fr)          # arguments are evaluated (they may touch caches); output dropped
                return recv
            if recv.ty.kind == "ref" and recv.ty.cls not in src.CLASSES and recv.ty.cls is not None:
                args, kwargs = self.ev_args(e, fr)
                return self.call_method(recv, f.attr, args, kwargs, fr, e)
            if recv.ty.kind == "ref" and recv.ty.cls in src.CLASSES:
                fi = src.resolve_method(recv.ty.cls, f.attr)
                has_any = fi is not None or any(src.resolve_method(sc, f.attr) for sc in src.subclasses(recv.ty.cls))
                if has_any and (fi is None or fi.kind != "property"):
                    args, kwargs = self.ev_args(e, fr)
                    return self.call_method(recv, f.attr, args, kwargs, fr, e)
            fv_ = self.getattr(recv, f.attr, fr, f)
            args, kwargs = self.ev_args(e, fr)
            return self.call_value(fv_, args, kwargs, fr, e)
        fv_ = self.ev(f, fr)
        args, kwargs = self.ev_args(e, fr)
        return self.call_value(fv_, args, kwargs, fr, e)

    def ev_args(self, e, fr):
        args = []
        for a in e.args:
            if isinstance(a, ast.Starred):
                va = fr.fi.node.args.vararg if fr.fi is not None and fr.fi.node is not None else None
                if isinstance(a.value, ast.Name) and va is not None and a.value.id == va.arg and fr.lookup(va.arg) is None:
                    continue        # pass-through *args: modelled as absent (DESIGN 3.1)
                v = self.ev(a.value, fr)
                if v.ty.kind == "tuple" and v.items is not None:
                    args.extend(v.items)
                    continue
                if v.ty.kind == "shape":
                    args.append(Val(Ty("starshape"), None, meta=v.meta))
                    continue
                raise Unsupported(f"*args at {src.loc(fr.fi, e)}")
            args.append(self.ev(a, fr))
        kwargs = {}
        for kw in e.keywords:
            if kw.arg is None:
                ka = fr.fi.node.args.kwarg if fr.fi is not None and fr.fi.node is not None else None
                if isinstance(kw.value, ast.Name) and ka is not None and kw.value.id == ka.arg and fr.lookup(ka.arg) is None:
                    continue        # pass-through **kwargs: modelled as absent
                v = self.ev(kw.value, fr)
                kwargs["**"] = v
                continue
            kwargs[kw.arg] = self.ev(kw.value, fr)
        return args, kwargs

    def call_value(self, fv_, args, kwargs, fr, node):
        from . import models
        k = fv_.ty.kind
        if k == "fn":
            if fv_.fn is not None:
                fi = fv_.fn
                if fv_.bound is not None:
                    if fv_.bound.ty.kind == "ref":
                        return self.call_method(fv_.bound, fi.name, args, kwargs, fr, node)
                    return self.call_function(fi, fv_.bound, args, kwargs, fr, node)
                return self.call_function(fi, None, args, kwargs, fr, node, env=fv_.env)
            return models.call_builtin(self, fv_, args, kwargs, fr, node)
        if k == "cls":
            return self.construct(fv_.name, args, kwargs, fr, node)
        if k == "ref":
            return self.call_method(fv_, "__call__", args, kwargs, fr, node)
        if k == "lambda":
            return self.call_lambda(fv_, args, fr)
        if k == "dynclass":
            # construction through a {config class: deme class} table: the class of the result is the table
            # entry of the dynamic class of the key object; the constructor is the abstract deme constructor
            con = spec.CONTRACTS.get("ext.$DemeCtor.__call__")
            if con is None:
                raise Unsupported("no contract ext.$DemeCtor.__call__")
            res = self.apply_contract(con, None, None, args, kwargs, fr, node)
            table = fv_.meta["map"].meta["table"]
            for kname, vname in sorted(table.items()):
                self.assume(DEME_CLASS_OF(class_id(kname)) == class_id(vname))
            self.assume(typeof(res.t) == DEME_CLASS_OF(typeof(fv_.t)))
            return res
        if k == "ext":
            con = spec.CONTRACTS.get(f"ext.{fv_.ty.cls}.__call__")
            if con is None:
                raise Unsupported(f"no contract for external callable {fv_.ty.cls}")
            holder = vref(fv_.t, fv_.meta.get("holder_cls"))
            return self.apply_contract(con, None, holder, args, kwargs, fr, node)
        raise Unsupported(f"call of {fv_.ty} at {src.loc(fr.fi, node)}")

    def ev_Lambda(self, e, fr):
        return Val(Ty("lambda"), None, meta=dict(node=e, fr=fr))

    def call_lambda(self, lam, args, fr):
        node, lfr = lam.meta["node"], lam.meta["fr"]
        names = [a.arg for a in node.args.args]
        saved = {n: lfr.locals.get(n) for n in names}
        try:
            for n, a in zip(names, args):
                lfr.locals[n] = a
            return self.ev(node.body, lfr)
        finally:
            for n, s in saved.items():
                if s is None:
                    lfr.locals.pop(n, None)
                else:
                    lfr.locals[n] = s

    # ---- calls ---------------------------------------------------------------------------
    def candidates(self, cls, meth):
        """distinct implementations of `meth` that an object of static class `cls` can have"""
        seen = []
        for sc in [cls] + [c for c in src.subclasses(cls) if c != cls]:
            fi = src.resolve_method(sc, meth)
            if fi is not None and fi not in seen:
                seen.append(fi)
        return seen

    def call_method(self, recv, meth, args, kwargs, fr, node, static=False):
        cls = recv.ty.cls
        if cls not in src.CLASSES:
            con = spec.CONTRACTS.get(f"ext.{cls}.{meth}")
            if con is None:
                raise Unsupported(f"method {meth} on external class {cls}: no contract ext.{cls}.{meth}")
            return self.apply_contract(con, None, recv, args, kwargs, fr, node)
        cands = self.candidates(cls, meth)
        if not cands:
            raise Unsupported(f"no method {cls}.{meth}")
        top = src.resolve_method(cls, meth)
        if (len(cands) == 1 or recv.ty.exact) and top is not None:
            return self.call_function(top, recv, args, kwargs, fr, node)
        # dynamic dispatch: the contract of the static class' method (the abstract contract)
        if top is None:
            top_q = f"{src.CLASSES[cls].module}.{cls}.{meth}"
        else:
            top_q = top.qual
        con = spec.CONTRACTS.get(top_q)
        while con is not None and con.static_only:
            if not con.refines:
                raise Unsupported(f"contract of {con.qual} is static-only and refines nothing")
            con = spec.CONTRACTS.get(con.refines)
            top = src.FUNCS.get(con.qual, top) if con is not None else top
        if con is None:
            raise Unsupported(f"dynamic dispatch on {cls}.{meth} needs an abstract contract ({top_q})")
        if con.heapfn or con.value is not None:
            return self.apply_pure(con, top, recv, args, kwargs, fr, node)
        return self.apply_contract(con, top, recv, args, kwargs, fr, node)

    def bind_params(self, fi, self_val, args, kwargs, fr, node):
        a = fi.node.args
        names = [x.arg for x in a.posonlyargs + a.args]
        defaults = list(a.defaults)
        bound = {}
        pos = list(args)
        if fi.kind in ("method", "property") or (fi.kind == "classmethod"):
            if fi.kind == "classmethod":
                bound[names[0]] = Val(Ty("cls"), name=(self_val.name if self_val is not None and self_val.ty.kind == "cls" else fi.cls))
            else:
                bound[names[0]] = self_val
            names_rest = names[1:]
        else:
            names_rest = names
        for nm in names_rest:
            if pos:
                bound[nm] = pos.pop(0)
        if pos:
            if a.vararg is None:
                raise Unsupported(f"too many positional arguments for {fi.qual}")
        for k, v in kwargs.items():
            if k == "**":
                continue
            if k in names_rest or k in [x.arg for x in a.kwonlyargs]:
                bound[k] = v
            elif a.kwarg is None:
                raise Unsupported(f"unexpected keyword {k} for {fi.qual}")
            else:
                bound.setdefault("$kwargs", {})[k] = v
        # defaults
        nd = len(defaults)
        for i, nm in enumerate(names):
            if nm in bound:
                continue
            j = i - (len(names) - nd)
            if j >= 0:
                dfr = Frame(_ModFi(fi.module), {}, None)
                bound[nm] = self.ev(defaults[j], dfr)
            else:
                raise Unsupported(f"missing argument {nm} for {fi.qual} at {src.loc(fr.fi, node)}")
        for kwn, d in zip(a.kwonlyargs, a.kw_defaults):
            if kwn.arg not in bound:
                if d is None:
                    raise Unsupported(f"missing kw-only {kwn.arg}")
                bound[kwn.arg] = self.ev(d, Frame(_ModFi(fi.module), {}, None))
        if "**" in kwargs:
            bound["$starkw"] = kwargs["**"]
        if a.kwarg is not None:
            # **kwargs: the extra keyword arguments as a dictionary value with statically known keys
            bound[a.kwarg.arg] = Val(Ty("kwdict"), None, meta=dict(items=dict(bound.pop("$kwargs", {}))))
        return bound

    def call_function(self, fi, self_val, args, kwargs, fr, node, static=False, env=None):
        con = spec.CONTRACTS.get(fi.qual)
        if con is None and getattr(self, "elem_tier", None):
            con = spec.CONTRACTS.get(f"{fi.qual}#{self.elem_tier}")      # tier-specific contract of a coordinate-view helper
        if con is not None and (con.heapfn or con.value is not None) and not con.inline:
            return self.apply_pure(con, fi, self_val, args, kwargs, fr, node)
        if fr.spec:
            return self.spec_inline(fi, self_val, args, kwargs, fr, node, env)
        if con is not None and not con.inline:
            return self.apply_contract(con, fi, self_val, args, kwargs, fr, node)
        return self.inline_call(fi, self_val, args, kwargs, fr, node, env, con)

    def inline_call(self, fi, self_val, args, kwargs, fr, node, env=None, con=None):
        if fr.depth >= self.MAX_INLINE:
            raise Unsupported(f"inline depth exceeded at {fi.qual}")
        if getattr(fi, "abstract", False):
            raise Unsupported(f"call of abstract {fi.qual} without contract")
        bound = self.bind_params(fi, self_val, args, kwargs, fr, node)
        self.coerce_params(fi, bound, con)
        self.inlined.add(fi.qual)
        nfr = Frame(fi, bound, self_val, cls=fi.cls, contract=con, parent_env=env)
        nfr.depth = fr.depth + 1
        stack = getattr(self, "self_stack", None)
        pushed = False
        if stack is not None and self_val is not None and self_val.ty.kind == "ref" and self_val.t is not None:
            stack.append(self_val.t)
            pushed = True
        try:
            self.exec_block(fi.node.body, nfr)
        except ReturnEx as r:
            return r.val
        finally:
            if pushed:
                stack.pop()
        return vnone()

    def alias_params(self, fi, bound, con):
        """an override may rename parameters: clauses use the names of the contract"""
        if fi is None or fi.node is None:
            return
        a = fi.node.args
        names = [x.arg for x in a.posonlyargs + a.args]
        if fi.kind in ("method", "property", "classmethod"):
            names = names[1:]
        for (cn, _), nm in zip(con.params.items(), names):
            if cn not in bound and nm in bound:
                bound[cn] = bound[nm]

    def coerce_params(self, fi, bound, con):
        if con is None:
            return
        for k, ty in con.params.items():
            if k in bound and bound[k].ty.kind not in ("fn", "cls", "mod", "lambda"):
                try:
                    if ty.kind == "list" and bound[k].ty.kind == "list" and bound[k].t is not None:
                        bound[k] = self.fit_list(bound[k], ty)
                    bound[k] = self.coerce(bound[k], ty)
                    if ty.is_heap and (ty.args or ty.cls) and not (bound[k].ty.kind == "list" and bound[k].t is None):
                        bound[k] = Val(ty, bound[k].t, meta=bound[k].meta)
                except Unsupported:
                    pass

    def spec_inline(self, fi, self_val, args, kwargs, fr, node, env=None):
        """pure evaluation of a simple getter inside a specification"""
        if fr.depth >= 12:
            raise Unsupported(f"spec inline depth at {fi.qual}")
        bound = self.bind_params(fi, self_val, args, kwargs, fr, node)
        self.coerce_params(fi, bound, spec.CONTRACTS.get(fi.qual))
        nfr = Frame(fi, bound, self_val, cls=fi.cls, contract=None, parent_env=env)
        nfr.spec = True
        nfr.old = fr.old
        nfr.depth = fr.depth + 1
        nfr.bound = dict(fr.bound)
        return self.spec_body(fi.node.body, nfr, fi)

    def spec_body(self, stmts, nfr, fi):
        stmts = [s for s in stmts if not (isinstance(s, ast.Expr) and isinstance(s.value, ast.Constant))]
        if not stmts:
            return vnone()
        s = stmts[0]
        if isinstance(s, ast.Return):
            return self.ev(s.value, nfr) if s.value is not None else vnone()
        if isinstance(s, ast.If):
            c = self.cond(s.test, nfr)
            a = self.spec_body(s.body + stmts[1:], nfr, fi)
            b = self.spec_body(s.orelse + stmts[1:], nfr, fi)
            return self.ite(c, a, b)
        if isinstance(s, ast.Assign) and len(s.targets) == 1 and isinstance(s.targets[0], ast.Name):
            nfr.locals[s.targets[0].id] = self.ev(s.value, nfr)
            return self.spec_body(stmts[1:], nfr, fi)
        if isinstance(s, ast.Raise):
            return Val(Ty("bottom"))
        raise Unsupported(f"{fi.qual} is not a simple getter: cannot be used inside a specification")

    def construct(self, cname, args, kwargs, fr, node):
        from . import models
        if cname not in src.CLASSES:
            return models.construct_ext(self, cname, args, kwargs, fr, node)
        ci = src.CLASSES[cname]
        if fr.spec:
            raise Unsupported("object construction inside a specification")
        if "Enum" in src.mro(cname):
            raise Unsupported("enum construction")
        r = self.new_obj(cname.lower(), cname)
        obj = Val(Ty("ref", cls=cname, args=("exact",)), r)
        init = src.resolve_method(cname, "__init__")
        if "dataclass" in ci.decorators and (init is None or init.cls != cname):
            self.dataclass_init(ci, obj, args, kwargs, fr, node)
            return obj
        if init is not None:
            self.call_function(init, obj, args, kwargs, fr, node)
        for c in src.mro(cname):
            gd = spec.ON_CONSTRUCT.get(c)
            if gd is not None:
                from . import speceval
                gfr = Frame(None, {"self": obj}, None)
                gfr.spec = True
                self.assume(speceval.clause(self, gd, gfr))
                self.used_models.add(f"ghost definition at construction of {c}: {gd.label}")
        return obj

    def dataclass_init(self, ci, obj, args, kwargs, fr, node):
        fields_ = []
        for c in reversed(src.mro(ci.name)):
            if c in src.CLASSES:
                fields_ += [f for f in src.CLASSES[c].fields]
        pos = list(args)
        for (nm, default, ann) in fields_:
            if pos:
                v = pos.pop(0)
            elif nm in kwargs:
                v = kwargs[nm]
            elif default is not None:
                v = self.ev(default, Frame(_ModFi(ci.module), {}, None))
            else:
                raise Unsupported(f"dataclass {ci.name}: missing {nm}")
            ft = spec.field_type(ci.name, nm)
            if ft is None:
                if v.ty.kind in ("none", "fn", "cls", "mod"):
                    raise Unsupported(f"dataclass field {ci.name}.{nm} has no declared type")
                ft = v.ty
                spec.FIELD_TYPES[(ci.name, nm)] = ft
            self.wr(obj.t, nm, v, ft)

    # ---- contracts at call sites ------------------------------------------------------------
    def site_id(self, qual):
        n = self.site_ctr.get(qual, 0)
        self.site_ctr[qual] = n + 1
        return n

    def apply_contract(self, con, fi, self_val, args, kwargs, fr, node):
        from . import speceval
        if self.under_binder(fr):
            if getattr(self, "pure_depth", 0) > 0:
                from .comps import Impure
                raise Impure()
            raise Unsupported(f"call of {con.qual} under a binder needs a `value=` or `heapfn` contract")
        if fi is not None:
            bound = self.bind_params(fi, self_val, args, kwargs, fr, node)
        else:
            bound = {"self": self_val}
            for (k, _), a in zip(con.params.items(), args):
                bound[k] = a
            for k, v in kwargs.items():
                bound[k] = v
        self.alias_params(fi, bound, con)
        self.coerce_params(fi, bound, con)
        for k_, ty_ in con.params.items():
            # a lambda-defined list handed to a contract becomes a list object (the callee's clauses may speak about its identity)
            if ty_.kind == "list" and k_ in bound and bound[k_].ty.kind == "list" and bound[k_].t is None and not (con.pure and not con.modifies):
                bound[k_] = self.fit_list(bound[k_], ty_)
        self.used_contracts.add(con.qual)
        short = con.qual.split(".")[-2] + "." + con.qual.split(".")[-1] if con.qual.count(".") else con.qual
        site = f"{short}@{self.site_id(short)}"
        cfr = Frame(fi, dict(bound), self_val, cls=(fi.cls if fi else None), contract=con)
        cfr.spec = True
        loc = src.loc(fr.fi, node) if fr.fi is not None else ""
        for c in con.requires:
            g = speceval.clause(self, c, cfr)
            self.oblige("call-pre", c.label, g, c.tags, loc, c.text, site=site)
        # caller-side extra obligations declared in the caller's contract (calls={...})
        if fr.contract is not None:
            for key, cls_ in fr.contract.calls.items():
                if key == short or key == con.qual.split(".")[-1]:
                    cfr2 = Frame(fr.fi, dict(fr.locals), fr.self_val, cls=fr.cls, contract=fr.contract)
                    cfr2.spec = True
                    cfr2.old = fr.old
                    for i, a in enumerate(args):
                        cfr2.locals[f"arg{i}"] = a
                    for kn, a in (kwargs or {}).items():
                        cfr2.locals[f"kw_{kn}"] = a
                    if self_val is not None:
                        cfr2.locals["recv"] = self_val
                    for c in cls_:
                        g = speceval.clause(self, c, cfr2)
                        self.oblige("call-site", c.label, g, c.tags, loc, c.text, site=site)
        old = (dict(self.heap), self.alloc, dict(bound))
        cfr.old = old
        if con.pure and not con.modifies:
            pass
        else:
            if getattr(self, "pure_depth", 0) > 0:
                from .comps import Impure
                raise Impure()
            speceval.havoc(self, cfr, con.modifies, "c")
        res = None
        if con.returns is not None:
            res = self.fresh_val("ret", con.returns)
            if con.fresh_result and res.ty.is_heap:
                self.assume(z3.Not(old[1][res.t]))
                self.assume(res.t != 0)
                self.assume(self.alloc[res.t])
        else:
            res = vnone()
        cfr.result = res
        if res.ty.kind == "dict" and res.t is not None:
            from . import models
            self.assume(z3.Or(res.t == 0, models.dict_wf(self, res)))      # every dict object is a well-formed insertion-ordered map
        for c in con.ensures:
            self.assume(speceval.clause(self, c, cfr))
        if not (con.pure and not con.modifies) and spec.INVARIANTS:
            speceval.assume_invariants(self, fr.fi, exclude=getattr(self, "self_stack", []), tag="post")
        return res

    def under_binder(self, fr):
        return bool(fr.bound) or getattr(self, "pure_depth", 0) > 0 or getattr(self, "binder_depth", 0) > 0

    def apply_pure(self, con, fi, self_val, args, kwargs, fr, node):
        """pure methods: closed-form `value`, or a function of (heap stamp, receiver, arguments) whose
        defining axiom is the contract quantified over receivers (Dafny-style function encoding)"""
        from . import speceval
        bound = self.bind_params(fi, self_val, args, kwargs, fr, node)
        self.alias_params(fi, bound, con)
        self.coerce_params(fi, bound, con)
        self.used_contracts.add(con.qual)
        short = con.qual.split(".")[-2] + "." + con.qual.split(".")[-1]
        cfr = Frame(fi, dict(bound), self_val, cls=fi.cls, contract=con)
        cfr.spec = True
        cfr.bound = dict(fr.bound)
        cfr.old = fr.old
        if not fr.spec and not self.under_binder(fr):
            site = f"{short}@{self.site_id(short)}"
            loc = src.loc(fr.fi, node) if fr.fi is not None else ""
            for c in con.requires:
                self.oblige("call-pre", c.label, speceval.clause(self, c, cfr), c.tags, loc, c.text, site=site)
        if con.value is not None:
            was = cfr.spec
            v = self.ev(con.value_ast, cfr)
            if con.returns is not None:
                v = self.coerce(v, con.returns)
            return v
        # heap function
        names = [k for k in bound if isinstance(bound[k], Val) and bound[k].t is not None and bound[k].ty.kind not in ("fn", "cls", "mod", "lambda")]
        st = self.stamp()
        sorts = [bound[k].ty.sort() for k in names]
        fsym = z3.Function("FN_" + con.qual.replace(".", "_"), INT, *sorts, con.returns.sort())
        done = self.__dict__.setdefault("_hf_done", set())
        if (con.qual, st.as_long()) not in done:
            done.add((con.qual, st.as_long()))
            bvs = [z3.Const(f"{k}?{next(self.cnt)}", s_) for k, s_ in zip(names, sorts)]
            qfr = Frame(fi, {k: Val(bound[k].ty, bv) for k, bv in zip(names, bvs)}, None, cls=fi.cls, contract=con)
            if fi.kind in ("method", "property"):
                qfr.self_val = qfr.locals[list(bound.keys())[0]]
            qfr.spec = True
            qfr.result = Val(con.returns, fsym(st, *bvs))
            mark = len(self.pc)
            self.binder_depth = getattr(self, "binder_depth", 0) + 1
            try:
                rq = [speceval.clause(self, c, qfr) for c in con.requires]
                tyfacts = []
                for k, bv in zip(names, bvs):
                    ty = bound[k].ty
                    if ty.kind == "ref" and ty.cls in src.CLASSES:
                        tyfacts.append(z3.And(bv != 0, self.alloc[bv], is_instance(bv, ty.cls)))
                en = [speceval.clause(self, c, qfr) for c in con.ensures]
            finally:
                self.binder_depth -= 1
            extra = self.pc[mark:]
            del self.pc[mark:]
            self.pc.extend(x for x in extra if not speceval._mentions(x, bvs))
            if en:
                self.pc.append(z3.ForAll(bvs, z3.Implies(z3.And(tyfacts + rq), z3.And(en)), patterns=[fsym(st, *bvs)]))
        res = Val(con.returns, fsym(st, *[bound[k].t for k in names]))
        return res

    # ---- comprehensions (see models) ---------------------------------------------------------
    def ev_ListComp(self, e, fr):
        from . import comps
        return comps.listcomp(self, e, fr)

    def ev_GeneratorExp(self, e, fr):
        from . import comps
        return comps.listcomp(self, e, fr, gen=True)

    def ev_DictComp(self, e, fr):
        from . import comps
        return comps.dictcomp(self, e, fr)

    def ev_List(self, e, fr):
        vals = [self.ev(x, fr) for x in e.elts]
        if fr.spec:
            raise Unsupported("list display in specification")
        et = vals[0].ty if vals else Ty("any")
        for v in vals[1:]:
            et = self.join_ty(et, v.ty)
        lst = self.new_list(et)
        for v in vals:
            self.lappend(lst, v)
        return lst

    def ev_Dict(self, e, fr):
        from . import models
        return models.dict_display(self, e, fr)

    def ev_JoinedStr(self, e, fr):
        from . import models
        return models.fstring(self, e, fr)

    def ev_Slice(self, e, fr):
        raise Unsupported("bare slice")


class _ModFi:
    """pseudo FuncInfo for evaluating module-level constants / defaults"""

    def __init__(self, module):
        self.module = module
        self.qual = module
        self.cls = None
        self.node = None
        self.kind = "function"

    @property
    def file(self):
        return src.MODULES[self.module]["file"]
