"""Contract registry.  The sidecar files under /verif/contracts only build data through the
functions below; they import nothing from /repo."""
import ast
import glob
import importlib.util
import os

import z3

from . import VERIF, smt
from .values import T, Ty

CONTRACTS = {}     # qualified function name -> Contract
FIELD_TYPES = {}   # (class|None, field) -> Ty
SPECFNS = {}       # name -> (z3 func, [arg Ty], ret Ty)
MACROS = {}        # name -> (param names, ast expr, text)
AXIOMS = []        # Axiom
TRUSTED = []       # free-text entries for the evidence (external contracts, assumptions)
GHOST_FIELDS = set()
LEMMAS = []
INVARIANTS = []    # class invariants (visible-state semantics), see run.assume_invariants


class Clause:
    def __init__(self, label, text, tags=""):
        self.label = label
        self.text = " ".join(text.split())
        self.tags = set(tags.split()) if isinstance(tags, str) else set(tags)
        try:
            self.ast = ast.parse(self.text, mode="eval").body
        except SyntaxError as e:
            raise SyntaxError(f"clause {label}: {e}: {self.text}")

    def __repr__(self):
        return f"<{self.label}: {self.text}>"


def cl(label, text, tags=""):
    return Clause(label, text, tags)


class Contract:
    def __init__(_s, qual, **kw):
        self = _s
        self.qual = qual
        self.params = {k: T(v) for k, v in kw.pop("params", {}).items()}
        self.self_ty = kw.pop("self", None)
        self.returns = T(kw.pop("returns")) if kw.get("returns") else (kw.pop("returns", None) and None)
        self.requires = list(kw.pop("requires", []))
        self.ensures = list(kw.pop("ensures", []))
        self.raises = list(kw.pop("raises", []))      # clauses that must hold when the body raises
        self.modifies = list(kw.pop("modifies", []))   # (field pattern, condition text over `o`)
        self.loops = kw.pop("loops", {})               # ordinal -> dict(invariant=[...], modifies=[...], decreases=None)
        self.calls = kw.pop("calls", {})               # callee text -> [clauses]: extra call-site obligations
        self.refines = kw.pop("refines", None)
        self.abstract = kw.pop("abstract", False)
        self.pure = kw.pop("pure", False)              # no heap effect at all (modifies must be empty)
        self.inline = kw.pop("inline", False)          # callers execute the real body instead of the contract
        self.trusted = kw.pop("trusted", False)        # body not verified (external / outside the subset): listed
        self.tags = set(kw.pop("tags", "").split())
        self.locals = {k: T(v) for k, v in kw.pop("locals", {}).items()}
        self.ghost = kw.pop("ghost", {})                # statement hooks: {"after:<lineno-free key>": ...} (unused)
        self.note = kw.pop("note", "")
        self.twin = kw.pop("twin", None)                # relational obligations (C13)
        self.fresh_result = kw.pop("fresh_result", False)
        self.old_params = kw.pop("old_params", True)
        self.static_only = kw.pop("static_only", False)
        self.aliases = kw.pop("aliases", {})
        self.ghost_after = kw.pop("ghost_after", {})
        self.reveal = set(kw.pop("reveal", []))
        self.budget_mult = kw.pop("budget_mult", 1)     # solver budget multiplier (bit-precise float queries are slow)
        self.elem_tier = kw.pop("elem_tier", None)     # "fp64" | "real": coordinate view of NumPy ufunc code   # "<callee attr>@<static ordinal>" -> [ghost statements (python source)]       # clause name -> parameter name (overrides that renamed parameters)
        self.heapfn = kw.pop("heapfn", False)     # pure method used as a function of (heap, receiver, args): Dafny-style
        self.value = kw.pop("value", None)        # closed form of the result (pure): callers use the expression itself
        if self.value is not None:
            self.value_ast = ast.parse(" ".join(self.value.split()), mode="eval").body
            self.pure = True
        if self.heapfn:
            self.pure = True   # only for super()/exact-type calls; dispatch uses `refines`
        if kw:
            raise TypeError(f"contract {qual}: unknown keys {list(kw)}")
        self._mod_asts = None

    def mod_asts(self):
        if self._mod_asts is None:
            self._mod_asts = [(f, ast.parse(" ".join(c.split()), mode="eval").body) for f, c in self.modifies]
        return self._mod_asts

    def all_clauses(self):
        return self.requires + self.ensures + self.raises


def fn(qual, **kw):
    c = Contract(qual, **kw)
    if qual in CONTRACTS:
        raise KeyError(f"duplicate contract {qual}")
    CONTRACTS[qual] = c
    return c


def fields(cls, **kw):
    for k, v in kw.items():
        FIELD_TYPES[(cls, k)] = T(v)


def ghost_fields(**kw):
    for k, v in kw.items():
        FIELD_TYPES[(None, k)] = T(v)
        GHOST_FIELDS.add(k)


def specfn(name, args, ret):
    at = [T(a) for a in args]
    rt = T(ret)
    f = z3.Function(name, *[a.sort() for a in at], rt.sort())
    SPECFNS[name] = (f, at, rt)
    return f


def macro(name, params, text):
    text = " ".join(text.split())
    MACROS[name] = (params, ast.parse(text, mode="eval").body, text)


OPAQUE = {}     # name -> dict(stateful)


def opaque(name, params, text, stateful=False):
    """a predicate whose definition is hidden from the solver unless the function's contract says
    reveal=[name]; stateless predicates rely on the immutability of the fields they read (checked by
    pyvc.check: those fields are written only by constructors)"""
    macro(name, params, text)
    OPAQUE[name] = dict(stateful=stateful)


class Axiom:
    def __init__(self, name, text, types, note, only=None):
        self.only = only        # None: everywhere; else the functions (qualified-name suffixes) whose proofs may use it
        self.name = name
        self.text = " ".join(text.split())
        self.ast = ast.parse(self.text, mode="eval").body
        self.types = types
        self.note = note


def axiom(name, text, note="", only=None, **types):
    AXIOMS.append(Axiom(name, text, types, note, only))


def trusted(text):
    TRUSTED.append(text)


RENAMED = {}
ON_CONSTRUCT = {}      # class -> Clause: defining equations of ghost functions, assumed for every newly constructed instance


def ghost_definition(cls, label, text, note):
    """ghost *functions* (inner, depth, in_chain, dirmax, box) are defined from fields that only constructors write; their defining
    equations for a new object are assumed when its constructor returns (listed in the trusted base)"""
    ON_CONSTRUCT[cls] = Clause(label, text, "")
    TRUSTED.append(note)


def field_type(cls, field):
    from . import src
    if cls:
        for c in src.mro(cls):
            t = FIELD_TYPES.get((c, field))
            if t is not None:
                return t
        if cls in src.CLASSES:
            for c in src.subclasses(cls):
                t = FIELD_TYPES.get((c, field))
                if t is not None:
                    return t
    return FIELD_TYPES.get((None, field))


def refine(qual, base, **kw):
    """contract of an override = the clauses of the abstract contract + its own (behavioural subtyping)"""
    b = CONTRACTS[base]
    aliases = {}
    if "params" in kw:
        for (bn, _), (nn, _) in zip(b.params.items(), kw["params"].items()):
            if bn != nn:
                aliases[bn] = nn
    kw.setdefault("params", dict(b.params))
    kw["aliases"] = aliases
    if "returns" not in kw and b.returns is not None:
        kw["returns"] = b.returns
    kw["requires"] = list(b.requires) + kw.get("requires", [])
    kw["ensures"] = list(b.ensures) + kw.get("ensures", [])
    kw.setdefault("modifies", list(b.modifies))
    kw["refines"] = base
    kw.setdefault("pure", b.pure)
    kw.setdefault("heapfn", b.heapfn)
    kw["reveal"] = list(set(kw.get("reveal", [])) | b.reveal)
    if b.value is not None:
        kw.setdefault("value", b.value)
    return fn(qual, **kw)


_LOADED = [False]


def load_contracts():
    if _LOADED[0]:
        return
    _LOADED[0] = True
    import sys
    for path in sorted(glob.glob(os.path.join(VERIF, "contracts", "*.py"))):
        name = "pyvc_contracts_" + os.path.basename(path)[:-3]
        spec = importlib.util.spec_from_file_location(name, path)
        mod = importlib.util.module_from_spec(spec)
        sys.modules[name] = mod
        spec.loader.exec_module(mod)
    try:                                    # contracts follow pure renamings of local variables (pyvc.renames)
        from . import renames, src as _src
        RENAMED.update(renames.apply(CONTRACTS, _src.FUNCS, Clause))
    except Exception as e:                  # never fatal: without it a renamed local makes the function undecided
        RENAMED["error"] = str(e)
    bad = refinement_frame_problems()
    if bad:
        raise RuntimeError("refinement widens the frame of its abstract contract: " + "; ".join(bad))


def refinement_frame_problems():
    """behavioural subtyping of frames: an override may only write what the abstract contract lets it write.  Checked
    syntactically: same field, and a condition that is the base condition, a conjunction starting with it, or anything when
    the base condition is True."""
    out = []
    for q, c in CONTRACTS.items():
        if not getattr(c, "refines", None) or "#canary" in q:
            continue
        b = CONTRACTS[c.refines]
        bm = {}
        for f, cond in b.modifies:
            bm.setdefault(f, []).append(" ".join(cond.split()))
        for f, cond in c.modifies:
            cond = " ".join(cond.split())
            if f not in bm:
                out.append(f"{q}: {f}")
            elif "True" not in bm[f] and not any(cond == x or cond.startswith("(" + x + ") and ") for x in bm[f]):
                out.append(f"{q}: {f} when {cond}")
    return out


def canary(base, name, tags, **extra):
    """a copy of contract `base` with deliberately false extra clauses (labels start with CANARY):
    they must FAIL; a canary that verifies means the encoding is unsound."""
    b = CONTRACTS[base]
    c = Contract(f"{base}#canary_{name}", **{"self": b.self_ty}, params=dict(b.params),
                 returns=b.returns, requires=list(b.requires) + list(extra.get("requires", [])),
                 ensures=list(extra.get("ensures", [])), modifies=list(extra.get("modifies", b.modifies)),
                 loops=extra.get("loops", b.loops), tags=tags, pure=b.pure, locals={k: v for k, v in b.locals.items()},
                 reveal=list(b.reveal), ghost_after=b.ghost_after, aliases=dict(getattr(b, "aliases", {}) or {}))
    CONTRACTS[c.qual] = c
    return c


class Invariant:
    def __init__(self, cls, label, text, tags=""):
        self.cls, self.label = cls, label
        self.clause = Clause(label, text, tags)
        self.tags = self.clause.tags


def invariant(cls, label, text, tags=""):
    INVARIANTS.append(Invariant(cls, label, text, tags))
