"""Static scan of the nondeterminism sources in /repo/pyhms (C14): calls into the random / numpy.random / time / datetime / uuid /
os.urandom / secrets APIs, hash() and id(), and set constructions (iteration order).  The scan is syntactic (import aliases are
resolved per module); an entry is `file::enclosing function::callee`, so unrelated edits do not change it.  The entries found on the
unchanged tree are recorded in baseline/effects.json: each of them is either driven by the seeded global generators, or feeds logging /
bookkeeping only (see DESIGN.md).  A source that is not in that list makes the C14 check *undecided* - never a violation."""
import ast
import json
import os

from . import REPO, VERIF

CATS = [("random", ("random.",)), ("numpy.random", ("numpy.random.",)), ("time", ("time.", "datetime.")), ("uuid", ("uuid.",)),
        ("os-entropy", ("os.urandom", "secrets.")), ("scipy-qmc", ("scipy.stats.qmc.",)), ("cma", ("cma.",))]


def _imports(tree):
    m = {}
    for n in ast.walk(tree):
        if isinstance(n, ast.Import):
            for a in n.names:
                m[(a.asname or a.name).split(".")[0] if not a.asname else a.asname] = a.name if a.asname else a.name.split(".")[0]
        elif isinstance(n, ast.ImportFrom) and n.module and not n.level:
            for a in n.names:
                m[a.asname or a.name] = n.module + "." + a.name
    return m


def _dotted(e):
    parts = []
    while isinstance(e, ast.Attribute):
        parts.append(e.attr)
        e = e.value
    if isinstance(e, ast.Name):
        parts.append(e.id)
        return list(reversed(parts))
    return None


def scan(repo=None):
    repo = repo or REPO
    out = set()
    root = os.path.join(repo, "pyhms")
    for dp, _, fs in os.walk(root):
        for f in sorted(fs):
            if not f.endswith(".py"):
                continue
            path = os.path.join(dp, f)
            rel = os.path.relpath(path, repo)
            try:
                tree = ast.parse(open(path).read())
            except SyntaxError:
                continue
            imp = _imports(tree)

            def visit(node, owner):
                for ch in ast.iter_child_nodes(node):
                    own = owner
                    if isinstance(ch, (ast.FunctionDef, ast.AsyncFunctionDef, ast.ClassDef)):
                        own = (owner + "." if owner else "") + ch.name
                    if isinstance(ch, ast.Call):
                        d = _dotted(ch.func)
                        if d:
                            full = ".".join([imp.get(d[0], d[0])] + d[1:])
                            for cat, pres in CATS:
                                if any(full.startswith(p) or full == p.rstrip(".") for p in pres):
                                    out.add(f"{rel}::{owner or '<module>'}::{full}")
                            if d == ["hash"] or d == ["id"] or d == ["set"] or d == ["frozenset"]:
                                out.add(f"{rel}::{owner or '<module>'}::builtin.{d[0]}")
                    if isinstance(ch, (ast.Set, ast.SetComp)):
                        out.add(f"{rel}::{owner or '<module>'}::set-display")
                    visit(ch, own)
            visit(tree, "")
    return sorted(out)


def baseline():
    try:
        return json.load(open(os.path.join(VERIF, "baseline", "effects.json")))
    except Exception:
        return None


if __name__ == "__main__":
    import sys
    s = scan()
    if "--record" in sys.argv:
        json.dump(s, open(os.path.join(VERIF, "baseline", "effects.json"), "w"), indent=0)
    print(len(s), "sources")
    for x in s:
        print(" ", x)
