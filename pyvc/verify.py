"""developer CLI: python3-vt -m pyvc.verify <qualified function> ...   (-v: models, -a: all contracts)"""
import sys
import time

from . import extmodels, run, spec, src


def main(argv):
    verbose = "-v" in argv
    argv = [a for a in argv if not a.startswith("-")]
    src.load()
    spec.load_contracts()
    quals = argv or [q for q, c in spec.CONTRACTS.items() if not (c.abstract or c.trusted or q.startswith("ext."))]
    quals2 = []
    for q in quals:
        m = [k for k in spec.CONTRACTS if k == q or k.endswith("." + q)]
        quals2 += m or [q]
    t0 = time.time()
    results = [run.verify_function(q) for q in quals2]
    vcs = [vc for r in results for vc in r.vcs]
    covers = [c for r in results for c in r.covers]
    cres = run.discharge(vcs, covers)
    bad = 0
    for r in results:
        print(f"== {r.qual}: {len(r.vcs)} VCs, {r.paths} paths, {r.seconds:.2f}s" + (f"  ERROR: {r.error}" if r.error else ""))
        byname = {}
        for vc in r.vcs:
            byname.setdefault(vc.name, []).append(vc)
        for nm, l in byname.items():
            st = "discharged" if all(v.status == "discharged" for v in l) else "/".join(sorted({v.status for v in l}))
            if st != "discharged":
                bad += 1
            print(f"   {st:11s} {nm.split('::', 1)[1]}  [{len(l)} vc, {sum(v.seconds for v in l):.2f}s]")
            if verbose:
                for v in l:
                    if v.status != "discharged":
                        print("      path", v.path, v.reason)
                        print("      " + (v.model or "").replace("\n", "\n      ")[:3000])
        for n_ in r.notes:
            print("   note:", n_[:300])
        con_ = spec.CONTRACTS.get(r.qual)
        if con_ is not None and con_.ensures and not r.error and not any(v.kind == "post" for v in r.vcs):
            print("   VACUOUS: the contract has postconditions but no path reaches the end of the function")
        feas = [k for k, (st, _) in cres.items() if k.startswith(r.qual + "::cover") and st != "unsat"]
        allc = [k for k in cres if k.startswith(r.qual + "::cover")]
        ent = cres.get(f"{r.qual}::cover::entry")
        print(f"   covers: {len(feas)}/{len(allc)} satisfiable; entry={ent[0] if ent else None}")
        if verbose:
            for k in allc:
                if cres[k][0] == "unsat":
                    print(f"      infeasible: {k.split('::cover::')[1]}")
    rls = sorted(((int(v.reason.split("=")[1]), v.name) for v in vcs if v.reason.startswith("rlimit=")), reverse=True)[:5]
    for rl, nm in rls:
        print(f"   rlimit {rl:>12,d}  {nm.split('::', 1)[1] if '::' in nm else nm}")
    print(f"total {len(vcs)} VCs, {bad} obligations not discharged, {time.time() - t0:.1f}s")


if __name__ == "__main__":
    main(sys.argv[1:])
