"""Source index: re-reads /repo/pyhms on every run and indexes classes and functions by
qualified name.  Nothing is copied or rewritten: the ast nodes handed to the symbolic
executor are the ones parsed from the working tree."""
import ast
import os

from . import REPO


class FuncInfo:
    def __init__(self, qual, node, module, cls=None, kind="function", outer=None):
        self.qual = qual          # e.g. pyhms.core.problem.EvalCountingProblem.evaluate
        self.node = node          # ast.FunctionDef / ast.Lambda
        self.module = module      # module name
        self.cls = cls            # defining class name (short) or None
        self.kind = kind          # function | method | property | classmethod | staticmethod
        self.outer = outer        # enclosing FuncInfo for nested defs

    @property
    def name(self):
        return self.qual.rsplit(".", 1)[-1]

    @property
    def file(self):
        return MODULES[self.module]["file"]

    def params(self):
        a = self.node.args
        names = [x.arg for x in a.posonlyargs + a.args]
        return names

    def __repr__(self):
        return f"<fn {self.qual}>"


class ClassInfo:
    def __init__(self, name, module, node):
        self.name = name
        self.module = module
        self.node = node
        self.bases = []
        self.methods = {}   # name -> FuncInfo
        self.decorators = []
        self.fields = []    # dataclass fields: (name, default ast or None)
        self.class_attrs = {}

    @property
    def qual(self):
        return f"{self.module}.{self.name}"


MODULES = {}   # module name -> dict(file, tree, imports, functions, consts)
CLASSES = {}   # short class name -> ClassInfo  (short names are unique inside pyhms; checked)
FUNCS = {}     # qualified name -> FuncInfo


def _deco_names(node):
    out = []
    for d in node.decorator_list:
        if isinstance(d, ast.Name):
            out.append(d.id)
        elif isinstance(d, ast.Attribute):
            out.append(d.attr)
        elif isinstance(d, ast.Call):
            f = d.func
            out.append(f.id if isinstance(f, ast.Name) else getattr(f, "attr", "?"))
    return out


def _index_nested(fi):
    for n in ast.walk(fi.node):
        if n is fi.node:
            continue
        if isinstance(n, ast.FunctionDef):
            q = f"{fi.qual}.<locals>.{n.name}"
            if q not in FUNCS:
                FUNCS[q] = FuncInfo(q, n, fi.module, cls=None, kind="function", outer=fi)


def load(repo=None):
    MODULES.clear()
    CLASSES.clear()
    FUNCS.clear()
    root = os.path.join(repo or REPO, "pyhms")
    for dp, dn, fns in sorted(os.walk(root)):
        dn.sort()
        for fn in sorted(fns):
            if not fn.endswith(".py"):
                continue
            path = os.path.join(dp, fn)
            rel = os.path.relpath(path, os.path.dirname(root))[:-3].replace(os.sep, ".")
            if rel.endswith(".__init__"):
                rel = rel[: -len(".__init__")]
            try:
                tree = ast.parse(open(path).read(), filename=path)
            except SyntaxError as e:  # a broken file is undecided, not a violation
                MODULES[rel] = dict(file=path, tree=None, imports={}, functions={}, consts={}, error=str(e))
                continue
            mod = dict(file=path, tree=tree, imports={}, functions={}, consts={}, error=None)
            MODULES[rel] = mod
            pkg = rel if fn == "__init__.py" else rel.rsplit(".", 1)[0]
            for n in tree.body:
                if isinstance(n, ast.Import):
                    for a in n.names:
                        mod["imports"][a.asname or a.name.split(".")[0]] = ("module", a.name if a.asname else a.name.split(".")[0])
                elif isinstance(n, ast.ImportFrom):
                    base = n.module or ""
                    if n.level:
                        parts = pkg.split(".")
                        parts = parts[: len(parts) - (n.level - 1)]
                        base = ".".join(parts + ([n.module] if n.module else []))
                    for a in n.names:
                        mod["imports"][a.asname or a.name] = ("from", base, a.name)
                elif isinstance(n, ast.ClassDef):
                    ci = ClassInfo(n.name, rel, n)
                    ci.decorators = _deco_names(n)
                    for b in n.bases:
                        if isinstance(b, ast.Name):
                            ci.bases.append(b.id)
                        elif isinstance(b, ast.Attribute):
                            ci.bases.append(b.attr)
                    for m in n.body:
                        if isinstance(m, ast.FunctionDef):
                            decos = _deco_names(m)
                            kind = "method"
                            if "property" in decos:
                                kind = "property"
                            elif "classmethod" in decos:
                                kind = "classmethod"
                            elif "staticmethod" in decos:
                                kind = "staticmethod"
                            elif "setter" in decos:
                                continue
                            fi = FuncInfo(f"{rel}.{n.name}.{m.name}", m, rel, cls=n.name, kind=kind)
                            fi.abstract = "abstractmethod" in decos
                            ci.methods[m.name] = fi
                            FUNCS[fi.qual] = fi
                            _index_nested(fi)
                        elif isinstance(m, ast.AnnAssign) and isinstance(m.target, ast.Name):
                            ci.fields.append((m.target.id, m.value, m.annotation))
                        elif isinstance(m, ast.Assign) and len(m.targets) == 1 and isinstance(m.targets[0], ast.Name):
                            ci.class_attrs[m.targets[0].id] = m.value
                    if n.name in CLASSES:
                        # keep the first; record the clash (none on the pinned tree)
                        mod.setdefault("clashes", []).append(n.name)
                    else:
                        CLASSES[n.name] = ci
                elif isinstance(n, ast.FunctionDef):
                    fi = FuncInfo(f"{rel}.{n.name}", n, rel, kind="function")
                    fi.abstract = False
                    mod["functions"][n.name] = fi
                    FUNCS[fi.qual] = fi
                    _index_nested(fi)
                elif isinstance(n, ast.Assign) and len(n.targets) == 1 and isinstance(n.targets[0], ast.Name):
                    mod["consts"][n.targets[0].id] = n.value
                elif isinstance(n, ast.AnnAssign) and isinstance(n.target, ast.Name) and n.value is not None:
                    mod["consts"][n.target.id] = n.value
    return MODULES


def mro(cname):
    """C3 is not needed for the single-inheritance-plus-ABC/Protocol hierarchies of pyhms;
    depth-first, left-to-right, duplicates removed keeping the first occurrence."""
    out = [cname]
    ci = CLASSES.get(cname)
    if ci:
        for b in ci.bases:
            for x in mro(b):
                if x not in out:
                    out.append(x)
    return out


def subclasses(cname):
    return [c for c in CLASSES if cname in mro(c)]


def resolve_method(cname, meth, after=None):
    """Find the FuncInfo of `meth` starting at class `cname` (or after class `after` in the MRO:
    super())."""
    m = mro(cname)
    if after is not None:
        m = m[m.index(after) + 1:]
    for c in m:
        ci = CLASSES.get(c)
        if ci and meth in ci.methods:
            return ci.methods[meth]
    return None


def resolve_global(module, name):
    """Resolve a global name used in `module`: ('class', ClassInfo) | ('func', FuncInfo) |
    ('module', name) | ('const', ast) | ('ext', dotted) | None"""
    mod = MODULES.get(module)
    if mod is None:
        return None
    if name in mod["functions"]:
        return ("func", mod["functions"][name])
    if name in CLASSES and CLASSES[name].module == module:
        return ("class", CLASSES[name])
    if name in mod["consts"]:
        return ("const", mod["consts"][name], module)
    imp = mod["imports"].get(name)
    if imp:
        if imp[0] == "module":
            return ("module", imp[1])
        base, nm = imp[1], imp[2]
        if base.startswith("pyhms"):
            tgt = MODULES.get(base)
            if tgt is not None:
                r = resolve_global(base, nm) if tgt["tree"] is not None else None
                if r:
                    return r
            if f"{base}.{nm}" in MODULES:
                return ("module", f"{base}.{nm}")
            if nm in CLASSES:
                return ("class", CLASSES[nm])
        return ("ext", f"{base}.{nm}")
    return None


def loc(fi, node=None):
    n = node or fi.node
    return f"{os.path.relpath(fi.file, REPO)}:{getattr(n, 'lineno', '?')}"
