"""Contracts name local variables of the code (loop counters, accumulators).  A pure renaming of locals must not break them: for every
function under contract, tools/update_baseline.py records the function's shape with the local names replaced by placeholders (first-use
order) and the names themselves (baseline/locals.json).  When the current source has the same shape but other names, the contract's clause
texts, loop specifications, ghost statements and declared locals are rewritten old name -> new name before anything is verified.  Any other
difference leaves the contract alone (clauses that name a vanished local then make the function undecided, as before)."""
import ast
import hashlib
import json
import os
import re

from . import VERIF


def local_names(fn_node):
    params = {a.arg for a in fn_node.args.posonlyargs + fn_node.args.args + fn_node.args.kwonlyargs}
    if fn_node.args.vararg:
        params.add(fn_node.args.vararg.arg)
    if fn_node.args.kwarg:
        params.add(fn_node.args.kwarg.arg)
    names = []

    def visit(n, top):
        for ch in ast.iter_child_nodes(n):
            if isinstance(ch, (ast.FunctionDef, ast.AsyncFunctionDef, ast.Lambda, ast.ClassDef)) and not top:
                continue
            if isinstance(ch, ast.Name) and isinstance(ch.ctx, ast.Store) and ch.id not in params and ch.id not in names:
                names.append(ch.id)
            visit(ch, False)
    visit(fn_node, True)
    return names


def shape(fn_node):
    names = local_names(fn_node)
    idx = {n: i for i, n in enumerate(names)}
    node = ast.parse(ast.unparse(fn_node)).body[0]       # private copy
    for n in ast.walk(node):
        if isinstance(n, ast.Name) and n.id in idx:
            n.id = f"_L{idx[n.id]}"
        if isinstance(n, ast.Expr) and isinstance(n.value, ast.Constant) and isinstance(n.value.value, str):
            n.value.value = ""                           # docstrings
    return names, hashlib.sha1(ast.dump(node).encode()).hexdigest()


def record(funcs, quals):
    out = {}
    for q in quals:
        fi = funcs.get(q.split("#")[0])
        if fi is not None and getattr(fi, "node", None) is not None:
            names, sh = shape(fi.node)
            out[q] = dict(names=names, shape=sh)
    return out


def _sub(text, mp):
    if not isinstance(text, str):
        return text
    return re.sub(r"\b(" + "|".join(map(re.escape, mp)) + r")\b", lambda m: mp[m.group(1)], text)


def apply(contracts, funcs, clause_cls):
    """rewrite contracts whose function was only renamed; returns {qual: {old: new}}"""
    try:
        base = json.load(open(os.path.join(VERIF, "baseline", "locals.json")))
    except Exception:
        return {}
    done = {}
    for q, con in contracts.items():
        b = base.get(q)
        fi = funcs.get(q.split("#")[0])
        if b is None or fi is None or getattr(fi, "node", None) is None:
            continue
        names, sh = shape(fi.node)
        if sh != b["shape"] or names == b["names"] or len(names) != len(b["names"]):
            continue
        mp = {o: n for o, n in zip(b["names"], names) if o != n}
        if not mp or (set(mp.values()) & (set(b["names"]) - set(mp))):
            continue
        def rc(c):
            return clause_cls(c.label, _sub(c.text, mp), " ".join(sorted(c.tags)))
        con.requires = [rc(c) for c in con.requires]
        con.ensures = [rc(c) for c in con.ensures]
        con.raises = [rc(c) for c in con.raises]
        con.modifies = [(f, _sub(c, mp)) for f, c in con.modifies]
        con._mod_asts = None
        for k, ls in con.loops.items():
            for key in ("invariant", "hints"):
                if key in ls:
                    ls[key] = [rc(c) for c in ls[key]]
            for key in ("modifies", "local_frame"):
                if ls.get(key) is not None:
                    ls[key] = [(f, _sub(c, mp)) for f, c in ls[key]]
            for key in ("acc", "index", "seq", "seq_base"):      # contract-side names that happen to coincide with a renamed local
                if ls.get(key) in mp:
                    ls[key] = mp[ls[key]]
        con.calls = {k: [rc(c) for c in v] for k, v in con.calls.items()}
        con.ghost_after = {k: [_sub(s_, mp) for s_ in v] for k, v in con.ghost_after.items()}
        con.locals = {mp.get(k, k): v for k, v in con.locals.items()}
        done[q] = mp
    return done
