"""Evaluation of contract clauses (the spec language is a Python-expression subset evaluated by
the same evaluator as the code, in `spec` mode) and frame (modifies) handling."""
import ast
import re

import z3

from . import smt, spec, src
from .core import Frame, is_instance, typeof, class_id
from .smt import BOOL, INT, REF
from .values import T, Ty, Unsupported, Val, vbool, vfl, vint, vnone


def clause(ex, c, fr, loop_entry=None):
    """z3 Bool for clause `c` in the current state of `ex`, names resolved in frame `fr`."""
    was = fr.spec
    fr.spec = True
    saved_le = getattr(fr, "loop_entry", None)
    if loop_entry is not None:
        fr.loop_entry = loop_entry
    prev = getattr(ex, "cur_clause", None)
    ex.cur_clause = c.label
    try:
        v = ex.ev(c.ast, fr)
        return ex.truth(v)
    except Unsupported as e:
        raise Unsupported(f"in clause '{c.label}': {e}")
    finally:
        fr.spec = was
        fr.loop_entry = saved_le
        ex.cur_clause = prev


def eval_text(ex, text, fr, extra=None):
    node = ast.parse(" ".join(text.split()), mode="eval").body
    was = fr.spec
    fr.spec = True
    saved = dict(fr.bound)
    if extra:
        fr.bound.update(extra)
    try:
        return ex.ev(node, fr)
    finally:
        fr.spec = was
        fr.bound = saved


def with_state(ex, fr, heap, alloc, locals_, thunk):
    sh, sa, sl = ex.heap, ex.alloc, fr.locals
    ex.heap, ex.alloc = dict(heap), alloc
    if locals_ is not None:
        nl = dict(fr.locals)
        nl.update({k: v for k, v in locals_.items()})
        fr.locals = nl
    try:
        return thunk()
    finally:
        # maps created while evaluating in the old state are initial maps: keep them
        for k, m in ex.heap.items():
            if k not in sh:
                sh[k] = m
                heap.setdefault(k, m)
        ex.heap, ex.alloc, fr.locals = sh, sa, sl


QUANT = {"forall": z3.ForAll, "exists": z3.Exists}


def spec_call(ex, e, fr):
    name = e.func.id
    if name == "old":
        if fr.old is None:
            return ex.ev(e.args[0], fr)
        heap, alloc = fr.old[0], fr.old[1]
        locs = fr.old[2] if len(fr.old) > 2 else None
        return with_state(ex, fr, heap, alloc, locs, lambda: ex.ev(e.args[0], fr))
    if name == "at_entry":     # loop-entry state
        le = getattr(fr, "loop_entry", None)
        if le is None:
            raise Unsupported("at_entry outside a loop invariant")
        (heap, alloc), locs = le
        return with_state(ex, fr, heap, alloc, locs, lambda: ex.ev(e.args[0], fr))
    if name == "at_head":      # state at the beginning of the current loop iteration
        lh = getattr(fr, "loop_head", None)
        if lh is None:
            raise Unsupported("at_head outside a loop body")
        (heap, alloc), locs = lh
        return with_state(ex, fr, heap, alloc, locs, lambda: ex.ev(e.args[0], fr))
    if name == "imp":
        a = ex.truth(ex.ev(e.args[0], fr))
        b = ex.truth(ex.ev(e.args[1], fr))
        return vbool(z3.Implies(a, b))
    if name == "iff":
        a = ex.truth(ex.ev(e.args[0], fr))
        b = ex.truth(ex.ev(e.args[1], fr))
        return vbool(a == b)
    if name == "ite":
        c = ex.truth(ex.ev(e.args[0], fr))
        return ex.ite(c, ex.ev(e.args[1], fr), ex.ev(e.args[2], fr))
    if name in QUANT:
        lam = e.args[0]
        if not isinstance(lam, ast.Lambda):
            raise Unsupported("quantifier needs a lambda")
        types = {kw.arg: kw.value.value for kw in e.keywords if kw.arg not in ("pat", "pats")}
        pats = [kw.value for kw in e.keywords if kw.arg == "pat"]
        for kw in e.keywords:
            if kw.arg == "pats":          # alternatives
                pats.extend(kw.value.elts)
        names = [a.arg for a in lam.args.args]
        saved = dict(fr.bound)
        bvs = []
        for n in names:
            ty = T(types.get(n, "int"))
            bv = z3.Const(f"{n}?{next(ex.cnt)}", ty.sort())
            bvs.append(bv)
            fr.bound[n] = Val(ty, bv)
        savedpc = len(ex.pc)
        ex.binder_depth = getattr(ex, "binder_depth", 0) + 1
        try:
            body = ex.truth(ex.ev(lam.body, fr))
            patterns = []
            for p in pats:
                elts = p.elts if isinstance(p, ast.Tuple) else [p]
                ts = [ex.ev(x, fr).t for x in elts]
                patterns.append(z3.MultiPattern(*ts) if len(ts) > 1 else ts[0])
        finally:
            fr.bound = saved
            ex.binder_depth -= 1
        # type facts assumed while evaluating under the binder mention bound variables: drop them
        # (they are consequences of well-typedness assumed for the elements of stored lists)
        extra = ex.pc[savedpc:]
        del ex.pc[savedpc:]
        keep = [x for x in extra if not _mentions(x, bvs)]
        ex.pc.extend(keep)
        if name == "forall":
            hyp = [x for x in extra if _mentions(x, bvs)]
            # element type facts become hypotheses of the universally quantified body? no: they
            # are facts, so conjoining them as extra conclusions would be unsound; use them as
            # antecedents (weaker statement when used as a goal; as an assumption they hold).
            qid = f"{getattr(ex, 'cur_clause', None) or 'q'}_{next(ex.cnt)}"
            try:
                q = z3.ForAll(bvs, body, patterns=patterns, qid=qid) if patterns else z3.ForAll(bvs, body, qid=qid)
            except z3.Z3Exception:
                ex.notes.append(f"pattern rejected by z3 in clause {getattr(ex, 'cur_clause', '?')}: {[str(p_)[:80] for p_ in patterns]}")
                q = z3.ForAll(bvs, body, qid=qid)
        else:
            q = z3.Exists(bvs, body)
        return vbool(q)
    if name == "nrows":           # leading dimension of an array value whose contents are not modelled
        v = ex.ev(e.args[0], fr)
        if v.ty.kind != "oarr":
            raise Unsupported("nrows of a non-array")
        return vint(smt.oarr_rows(v.t))
    if name in ("comp_rank", "comp_src"):
        # position functions of a filtering comprehension `[x for x in S if C(x)]` held in a code variable:
        # comp_rank(L, i) = index in L of S[i] (for i with C(S[i])),  comp_src(L, t) = index in S of L[t]
        lst = ex.ev(e.args[0], fr)
        f_ = (lst.meta or {}).get("rank" if name == "comp_rank" else "srcf")
        if f_ is None:
            raise Unsupported(f"{name}: the list is not the value of a filtering comprehension")
        return vint(f_(ex.coerce(ex.ev(e.args[1], fr), "int").t))
    if name == "fresh":
        v = ex.ev(e.args[0], fr)
        oa = fr.old[1] if fr.old is not None else ex.alloc
        return vbool(z3.And(v.t != 0, z3.Not(oa[v.t]), ex.alloc[v.t]))
    if name == "allocated":
        v = ex.ev(e.args[0], fr)
        return vbool(ex.alloc[v.t])
    if name == "is_none":
        v = ex.ev(e.args[0], fr)
        return vbool(is_none(v))
    if name == "is_nan":
        v = ex.ev(e.args[0], fr)
        return vbool(smt.is_nan(ex.coerce(v, "fl").t))
    if name == "is_num":
        v = ex.ev(e.args[0], fr)
        return vbool(smt.fl_isnum(ex.coerce(v, "fl").t))
    if name == "is_fin":
        v = ex.ev(e.args[0], fr)
        return vbool(smt.is_fin(ex.coerce(v, "fl").t))
    if name == "same":
        a, b = ex.ev(e.args[0], fr), ex.ev(e.args[1], fr)
        return vbool(same_term(ex, a, b))
    if name == "exact_type":
        v = ex.ev(e.args[0], fr)
        return vbool(typeof(v.t) == class_id(e.args[1].value))
    if name == "instance_of":
        v = ex.ev(e.args[0], fr)
        return vbool(z3.And(v.t != 0, is_instance(v.t, e.args[1].value)))
    if name == "cast":
        v = ex.ev(e.args[0], fr)
        ty = T(e.args[1].value)
        if v.ty.kind == "none":
            return Val(ty, z3.IntVal(0))
        return Val(ty, v.t, meta=v.meta)
    if name == "real":
        v = ex.ev(e.args[0], fr)
        return Val(Ty("real"), smt.fv(ex.coerce(v, "fl").t))
    if name == "some":
        v = ex.ev(e.args[0], fr)
        return vbool(z3.Not(is_none(v)))
    if name == "fl":
        v = ex.ev(e.args[0], fr)
        return ex.coerce(v, "fl")
    if name == "int_of":
        v = ex.ev(e.args[0], fr)
        return ex.coerce(v, "int")
    if name == "field":      # field(obj, "name", "type"): raw heap read (ghost fields)
        v = ex.ev(e.args[0], fr)
        ty = T(e.args[2].value) if len(e.args) > 2 else spec.field_type(None, e.args[1].value)
        return ex.rd(v.t, e.args[1].value, ty)
    if name == "finite":
        from . import elem as E
        return vbool(E.is_finite(ex, ex.ev(e.args[0], fr)))
    if name == "not_nan":
        from . import elem as E
        x_ = E.lift(ex, ex.ev(e.args[0], fr))
        return vbool(z3.Not(z3.fpIsNaN(x_)) if E.tier(ex) == "fp64" else z3.BoolVal(True))
    if name == "lower_of":
        return Val(Ty("elem"), ex.ev(e.args[0], fr).meta["lower"])
    if name == "upper_of":
        return Val(Ty("elem"), ex.ev(e.args[0], fr).meta["upper"])
    if name == "rdiv":               # floor(a / r) as an integer (real tier): the quotient numpy.floor_divide / numpy.mod use
        from . import elem as E
        a_, r_ = (E.lift(ex, ex.ev(x, fr)) for x in e.args)
        return vint(E.uf("np_floordiv_real", z3.RealSort(), z3.RealSort(), z3.IntSort())(a_, r_))
    if name == "times":              # integer * element (real tier)
        k_ = ex.ev(e.args[0], fr)
        from . import elem as E
        return Val(Ty("elem"), z3.ToReal(k_.t) * E.lift(ex, ex.ev(e.args[1], fr)))
    if name == "congruent":          # congruent(a, b, r): a - b is an integer multiple of r   (real tier)
        a_, b_, r_ = (ex.ev(x, fr).t for x in e.args)
        k_ = ex.fresh("k_mult", INT)
        return vbool(z3.Exists([k_], a_ - b_ == z3.ToReal(k_) * r_))
    if name == "strlit":
        from .values import vstr
        return vstr(e.args[0].value)
    if name == "type_id":
        v = ex.ev(e.args[0], fr)
        return vint(typeof(v.t))
    if name == "class_id":
        return vint(class_id(e.args[0].value))
    if name == "deme_class_of":
        from .core import DEME_CLASS_OF
        return vint(DEME_CLASS_OF(ex.coerce(ex.ev(e.args[0], fr), "int").t))
    if name == "id_depth":
        return vint(smt.id_depth(ex.ev(e.args[0], fr).t))
    if name == "str_of_int":
        return Val(Ty("str"), smt.STR.SInt(ex.coerce(ex.ev(e.args[0], fr), "int").t))
    if name == "strcat":
        a, b = ex.ev(e.args[0], fr), ex.ev(e.args[1], fr)
        return Val(Ty("str"), smt.STR.SCat(a.t, b.t))
    if name == "str_is_int":
        return vbool(smt.STR.is_SInt(ex.ev(e.args[0], fr).t))
    if name == "str_is_cat":
        return vbool(smt.STR.is_SCat(ex.ev(e.args[0], fr).t))
    if name == "str_int":
        return vint(smt.STR.sint(ex.ev(e.args[0], fr).t))
    if name == "str_tail_n":
        t_ = ex.ev(e.args[0], fr).t
        for _ in range(z3.simplify(ex.ev(e.args[1], fr).t).as_long()):
            t_ = smt.STR.stail(t_)
        return Val(Ty("str"), t_)
    if name == "str_fl":
        smt.str_lit(e.args[0].value)
        return Val(Ty("str"), smt.STR.SFl(z3.IntVal(smt._LITS[e.args[0].value]), ex.coerce(ex.ev(e.args[1], fr), "fl").t))
    if name == "str_head":
        return Val(Ty("str"), smt.STR.shead(ex.ev(e.args[0], fr).t))
    if name == "str_tail":
        return Val(Ty("str"), smt.STR.stail(ex.ev(e.args[0], fr).t))
    if name in spec.MACROS:
        params, body, _ = spec.MACROS[name]
        args = [ex.ev(a, fr) for a in e.args]
        if len(args) != len(params):
            raise Unsupported(f"macro {name}: arity")
        if name in spec.OPAQUE and not getattr(ex, "_revealing", False):
            op = spec.OPAQUE[name]
            terms = [a.t for a in args]
            if op["stateful"]:
                terms = [ex.stamp()] + terms
            psym = z3.Function("P_" + name, *[t.sort() for t in terms], BOOL)
            app = psym(*terms)
            reveal = name in getattr(ex, "reveal", ())
            if reveal and not any(_mentions(t, [b.t for b in fr.bound.values()]) for t in terms if fr.bound):
                done = ex.__dict__.setdefault("_revealed", {})
                if app.get_id() not in done:
                    done[app.get_id()] = app
                    ex._revealing = True
                    try:
                        nfr0 = Frame(fr.fi, dict(zip(params, args)), fr.self_val, cls=fr.cls, contract=fr.contract)
                        nfr0.spec = True
                        nfr0.depth = fr.depth + 1
                        mark = len(ex.pc)
                        d = ex.truth(ex.ev(body, nfr0))
                    finally:
                        ex._revealing = False
                    ex.pc.append(app == d)
            return vbool(app)
        nfr = Frame(fr.fi, dict(zip(params, args)), fr.self_val, cls=fr.cls, contract=fr.contract)
        nfr.spec = True
        nfr.old = fr.old
        nfr.bound = dict(fr.bound)
        nfr.result = fr.result
        nfr.loop_entry = getattr(fr, "loop_entry", None)
        nfr.loop_head = getattr(fr, "loop_head", None)
        nfr.depth = fr.depth + 1
        if nfr.depth > 40:
            raise Unsupported(f"macro recursion at {name}")
        # `old` inside a macro body refers to the caller's old state; macro arguments are values
        if fr.old is not None:
            nfr.old = (fr.old[0], fr.old[1], None)
        return ex.ev(body, nfr)
    if name in spec.SPECFNS:
        f, at, rt = spec.SPECFNS[name]
        args = [ex.coerce(ex.ev(a, fr), t).t for a, t in zip(e.args, at)]
        return Val(rt, f(*args))
    return NotImplemented


def _mentions(t, bvs):
    ids = {b.get_id() for b in bvs}
    seen = set()
    stack = [t]
    while stack:
        x = stack.pop()
        i = x.get_id()
        if i in seen:
            continue
        seen.add(i)
        if i in ids:
            return True
        if z3.is_quantifier(x):
            stack.append(x.body())
        else:
            stack.extend(x.children())
    return False


def is_none(v):
    k = v.ty.kind
    if k == "none":
        return z3.BoolVal(True)
    if k == "fl":
        return smt.is_fnone(v.t)
    if k == "oint":
        return smt.OINT.is_INone(v.t)
    if k == "og":
        return smt.OG.is_GNone(v.t)
    if v.ty.is_heap:
        return v.t == 0
    return z3.BoolVal(False)


def same_term(ex, a, b):
    if a.ty.kind == "tuple":
        return z3.And([same_term(ex, x, y) for x, y in zip(a.items, b.items)])
    if a.ty.kind == "none" and b.ty.kind == "none":
        return z3.BoolVal(True)
    if a.ty.kind == "none":
        return is_none(b)
    if b.ty.kind == "none":
        return is_none(a)
    ty = ex.join_ty(a.ty, b.ty)
    x, y = ex.coerce(a, ty).t, ex.coerce(b, ty).t
    if x is None or y is None:
        raise Unsupported(f"== on a value without identity ({a.ty}, {b.ty}): e.g. a lambda-defined list")
    return x == y


# ---------------------------------------------------------------------------------------------
GROUPS = {
    "$list": lambda f: f.startswith("$len<") or f.startswith("$it"),
    "$dict": lambda f: f.startswith("$d"),
    "$arr": lambda f: f.startswith("$a"),
    "*": lambda f: True,
}


def field_matches(pat, field):
    if pat.startswith("$list<"):          # one type partition of the list maps only
        part = pat[len("$list"):]
        return (field.startswith("$len<") or field.startswith("$it")) and field.endswith(part)
    base = field.split("$")[0] if (not field.startswith("$") and "$" in field) else field
    if pat in GROUPS:
        return GROUPS[pat](field)
    return pat == field or pat == base


def mod_conditions(ex, fr, modifies):
    """[(pattern, lambda o_term -> z3 Bool)] evaluated in the current (pre) state"""
    out = []
    for pat, text in modifies:
        node = ast.parse(" ".join(text.split()), mode="eval").body

        def mk(node=node):
            heap, alloc = dict(ex.heap), ex.alloc

            def cond(o):
                was = fr.spec
                fr.spec = True
                saved = dict(fr.bound)
                fr.bound["o"] = Val(Ty("ref"), o)
                try:
                    return with_state(ex, fr, heap, alloc, None, lambda: ex.truth(ex.ev(node, fr)))
                finally:
                    fr.bound = saved
                    fr.spec = was
            return cond
        out.append((pat, mk()))
    return out


def ensure_declared_maps(ex, modifies):
    """make sure the heap maps of explicitly named fields exist before havoc"""
    for pat, _ in modifies:
        if pat.startswith("$list<"):
            part = pat[len("$list"):]
            ex.hmap("$len" + part, INT)
            continue
        if pat in GROUPS:
            continue
        for (c, f), ty in list(spec.FIELD_TYPES.items()):
            if f == pat:
                if ty.kind == "tuple":
                    for i, a in enumerate(ty.args):
                        ex.hmap(f"{f}${i}", a.sort())
                elif ty.kind not in ("ext",):
                    try:
                        ex.hmap(f, ty.sort())
                    except Unsupported:
                        pass


def havoc(ex, fr, modifies, tag, base_alloc=None, written=None, collect=False, local_frame=None):
    """havoc the declared frame.  Objects that were not allocated at `base_alloc` may change freely: for a call
    that is the allocation state at the call, for a loop it is the state at *function entry* (objects the
    function itself created before the loop are its own)."""
    ensure_declared_maps(ex, modifies)
    conds = mod_conditions(ex, fr, modifies)
    old_alloc = ex.alloc
    esc_alloc = base_alloc if base_alloc is not None else old_alloc
    new_alloc = ex.fresh(f"ALLOC_{tag}", z3.ArraySort(REF, BOOL))
    o = z3.Const(f"o?{next(ex.cnt)}", REF)
    # both directions trigger: intermediate versions are partly store equations, which E-matching does not walk upwards
    ex.assume(z3.ForAll([o], z3.Implies(old_alloc[o], new_alloc[o]), patterns=[old_alloc[o], new_alloc[o]], qid="alloc_mono"))
    ex.alloc = new_alloc
    lconds = mod_conditions(ex, fr, local_frame) if local_frame is not None else None
    for key in sorted(ex.heap.keys()):
        field, sk = key
        cs = [c for (p, c) in conds if field_matches(p, field)]
        if not cs and (base_alloc is None or collect):
            continue
        if not cs and written is not None and key not in written:
            continue      # loop: no path through the body writes this map (write sets are collected in a first pass and re-checked)
        if not cs and ex.heap[key].get_id() == ex.__dict__.get("_init_ids", {}).get(key):
            continue      # never written so far: objects created by the function have not touched this map yet
        m = ex.heap[key]
        nm = ex.fresh(f"H_{field}_{tag}", m.sort())
        o = z3.Const(f"o?{next(ex.cnt)}", REF)
        if lconds is None:
            may = z3.Or([c(o) for c in cs] + [z3.Not(esc_alloc[o])])
        else:
            # loop with a declared local frame: of the objects the function created *before* the loop only the declared ones
            # may change (checked at the end of the body: loop_frame_obligations); objects created inside the loop are free
            lcs = [c(o) for (p, c) in lconds if field_matches(p, field)]
            may = z3.Or([c(o) for c in cs] + [z3.And(z3.Not(esc_alloc[o]), z3.Or([z3.Not(old_alloc[o])] + lcs))])
        ex.assume(z3.ForAll([o], z3.Implies(z3.Not(may), nm[o] == m[o]), patterns=[nm[o]], qid="havoc_" + re.sub(r"[^A-Za-z0-9_]", "_", field)))
        ex.heap[key] = nm
    ex.good_heap()


def frame_obligations(ex, fr, con, heap0, alloc0, loc):
    """the body may only write inside its declared frame (or to objects it allocated)"""
    conds = None
    for key in sorted(ex.heap.keys()):
        m_end = ex.heap[key]
        m0 = heap0.get(key)
        if m0 is None:
            # the map was first touched after the entry snapshot was taken: its entry value is the initial map constant
            m0 = ex.__dict__.get("_init_maps", {}).get(key)
        if m0 is None or m0.eq(m_end):
            continue
        field, sk = key
        if conds is None:
            sh, sa = ex.heap, ex.alloc
            ex.heap, ex.alloc = dict(heap0), alloc0
            try:
                conds = mod_conditions(ex, fr, con.modifies)
            finally:
                ex.heap, ex.alloc = sh, sa
        cs = [c for (p, c) in conds if field_matches(p, field)]
        o = ex.fresh("frame_o", REF)
        may = z3.Or([c(o) for c in cs]) if cs else z3.BoolVal(False)
        goal = z3.Implies(z3.And(alloc0[o], z3.Not(may)), m_end[o] == m0[o])
        ex.oblige("frame", field, goal, con.tags | {"frame"}, loc, f"only declared objects change in field {field}")


def loop_frame_obligations(ex, fr, local_frame, head_heap, entry_alloc, fn_alloc, loc, site, tags):
    """loop with a declared local frame: an object that existed at loop entry, was created by this function and is not
    declared may not be changed by the body"""
    lconds = mod_conditions(ex, fr, local_frame)
    for key in sorted(ex.heap.keys()):
        m_end = ex.heap[key]
        m0 = head_heap.get(key)
        if m0 is None or m0.eq(m_end):
            continue
        field, sk = key
        lcs = [c for (p, c) in lconds if field_matches(p, field)]
        o = ex.fresh("lframe_o", REF)
        may = z3.Or([c(o) for c in lcs]) if lcs else z3.BoolVal(False)
        hyp = [entry_alloc[o], z3.Not(may)] + ([z3.Not(fn_alloc[o])] if fn_alloc is not None else [])
        ex.oblige("loop-frame", field, z3.Implies(z3.And(hyp), m_end[o] == m0[o]), tags | {"frame"}, loc,
                  f"the loop body changes field {field} only of declared local objects or of objects it created", site=site)


def invariant_at(ex, inv, o_term, fi_for_names=None):
    """z3 Bool: invariant `inv` for object o_term in the current state"""
    fr = Frame(fi_for_names, {"self": Val(Ty("ref", cls=inv.cls), o_term)}, None)
    fr.spec = True
    return clause(ex, inv.clause, fr)


def assume_invariants(ex, fi, exclude=(), tag="pre"):
    """all allocated objects satisfy their class invariants (visible-state semantics); objects in
    `exclude` (the receivers of the methods currently executing) may be mid-update"""
    for inv in spec.INVARIANTS:
        o = z3.Const(f"io?{next(ex.cnt)}", REF)
        mark = len(ex.pc)
        body = invariant_at(ex, inv, o, fi)
        extra = ex.pc[mark:]
        del ex.pc[mark:]
        ex.pc.extend(x for x in extra if not _mentions(x, [o]))
        guard = [o != 0, ex.alloc[o], is_instance(o, inv.cls)] + [o != x for x in exclude]
        ex.assume(z3.ForAll([o], z3.Implies(z3.And(guard), body), patterns=[typeof(o)]))


def invariant_obligations(ex, fi, heap0, alloc0, loc, exclude=()):
    for inv in spec.INVARIANTS:
        o = ex.fresh("inv_o", REF)
        mark = len(ex.pc)
        body_end = invariant_at(ex, inv, o, fi)
        sh, sa = ex.heap, ex.alloc
        ex.heap, ex.alloc = dict(heap0), alloc0
        try:
            body_0 = invariant_at(ex, inv, o, fi)
        finally:
            for k, m in ex.heap.items():
                sh.setdefault(k, m)
            ex.heap, ex.alloc = sh, sa
        del ex.pc[mark:]
        if body_end.eq(body_0) and ex.alloc.eq(alloc0):
            continue
        guard = [o != 0, ex.alloc[o], is_instance(o, inv.cls)] + [o != x for x in exclude]
        ex.oblige("class-inv", f"{inv.cls}.{inv.label}", z3.Implies(z3.And(guard), body_end), inv.tags, loc, inv.clause.text)
