"""Verification of one function against its contract: path exploration, obligations, solver pool."""
import hashlib
import multiprocessing as mp
import os
import time
import traceback

import z3

from . import smt, spec, speceval, src
from .core import (BreakEx, ContinueEx, Decider, Ex, Frame, PathEnd, RaiseEx, ReturnEx, class_id, is_instance, typeof)
from .values import T, Ty, Unsupported, Val, vnone, vref

MAX_PATHS = int(os.environ.get("PYVC_MAX_PATHS", "600"))


class VC:
    __slots__ = ("name", "kind", "label", "tags", "loc", "path", "fnqual", "text", "digest", "status", "reason",
                 "model", "seconds", "backend", "site", "group", "slot", "_pc", "_extra", "_goal", "in_baseline")

    def __init__(self, ob, smt2=None, pc=None, extra=None, goal=None):
        self.name, self.kind, self.label, self.tags = ob.name, ob.kind, ob.label, sorted(ob.tags)
        self._pc, self._extra, self._goal = pc, extra, goal
        self.group = self.slot = None
        self.loc, self.path, self.fnqual, self.text, self.site = ob.loc, ob.path, ob.fnqual, ob.text, ob.site
        self.digest = None
        self.status = None

    @property
    def smt2(self):
        """stand-alone SMT-LIB text of this VC (debugging / replay files)"""
        return to_smt2(list(self._pc) + list(self._extra), self._goal)


        self.reason = ""
        self.model = None
        self.seconds = 0.0
        self.backend = ""


class FnResult:
    def __init__(self, qual):
        self.qual = qual
        self.vcs = []
        self.paths = 0
        self.feasible_paths = 0
        self.error = None          # Unsupported / internal error text -> undecided
        self.internal = False
        self.inlined = set()
        self.used_contracts = set()
        self.used_models = set()
        self.notes = []
        self.covers = []           # (name, smt2) must be satisfiable (not unsat)
        self.seconds = 0.0
        self.field_reads = set()


def to_smt2(pc, goal):
    s = z3.Solver()
    for p in pc:
        s.add(p)
    s.add(z3.Not(goal))
    return s.to_smt2()


_SK = [0]


def split_goal(goal, hyps=None, out=None, budget=None):
    """skolemize universal goals, move antecedents to the hypotheses, split conjunctions: smaller and far more
    stable queries than handing z3 `not (forall ...)`"""
    hyps = hyps or []
    out = out if out is not None else []
    budget = budget or [48]
    g = goal
    if z3.is_quantifier(g) and g.is_forall() and budget[0] > 0:
        n = g.num_vars()
        sks = []
        for i in range(n):
            _SK[0] += 1
            sks.append(z3.Const(f"sk_{g.var_name(i).split('?')[0]}!{_SK[0]}", g.var_sort(i)))
        body = z3.substitute_vars(g.body(), *reversed(sks))
        keep = []
        for pi in range(g.num_patterns()):
            pt = g.pattern(pi)
            for t in (pt.children() if z3.is_app(pt) else []):
                t2 = z3.substitute_vars(t, *reversed(sks))
                hp = z3.Function("hint_" + str(t2.sort()).replace(" ", "_").replace("(", "").replace(")", "").replace(",", ""), t2.sort(), z3.BoolSort())
                keep.append(hp(t2))        # keeps the trigger term of the goal alive after splitting
        if g.num_patterns() == 0:
            out.append((hyps, body)) if False else None
            return split_goal(body, hyps, out, [0])      # no explicit trigger: keep the body whole
        return split_goal(body, hyps + keep, out, budget)
    if z3.is_implies(g) and budget[0] > 0:
        return split_goal(g.arg(1), hyps + [g.arg(0)], out, budget)
    if z3.is_and(g) and budget[0] > 1 and g.num_args() > 0:
        budget[0] -= g.num_args() - 1
        for c in g.children():
            split_goal(c, hyps, out, budget)
        return out
    out.append((hyps, g))
    return out


def _has_skolem(extra, leaf):
    return False


def cover_smt2(pc):
    s = z3.Solver()
    for p in pc:
        s.add(p)
    return s.to_smt2()


def setup(ex, fi, con):
    """symbolic entry state of `fi` under contract `con`"""
    a = fi.node.args
    names = [x.arg for x in a.posonlyargs + a.args] + [x.arg for x in a.kwonlyargs]
    locals_ = {}
    self_val = None
    cls = fi.cls
    if fi.kind in ("method", "property"):
        scls = con.self_ty or cls
        st = z3.Const("self", smt.REF)
        self_val = vref(st, scls)
        ex.assume(st != 0)
        ex.assume(ex.alloc[st])
        # the receiver is an instance of a class that actually runs this body (inherits the method without overriding it)
        runs_here = [c for c in src.subclasses(scls) if src.resolve_method(c, fi.name) is fi] if scls in src.CLASSES else []
        if scls in src.CLASSES and scls not in runs_here and src.resolve_method(scls, fi.name) is fi:
            runs_here.append(scls)
        if runs_here:
            ex.assume(z3.Or([typeof(st) == class_id(c) for c in sorted(runs_here)]))
        else:
            ex.assume(is_instance(st, scls))
        locals_[names[0]] = self_val
        names = names[1:]
    elif fi.kind == "classmethod":
        locals_[names[0]] = Val(Ty("cls"), name=con.self_ty or cls)
        names = names[1:]
    declared = list(con.params.items())
    for pos_i, nm in enumerate(names):
        ty = con.params.get(nm)
        alias = None
        if ty is None and pos_i < len(declared) and declared[pos_i][0] not in names:
            alias, ty = declared[pos_i]      # an override that renamed the parameter
        if ty is None:
            if nm.startswith("_") or nm in ("args", "kwargs"):
                continue
            raise Unsupported(f"parameter {nm} of {fi.qual} has no declared type in the contract")
        if ty.kind in ("none",):
            locals_[nm] = vnone()
            continue
        if ty.kind == "ignored":
            continue
        if ty.kind in ("elem", "ebounds"):
            from . import elem as E
            srt = E.sort(ex)
            if ty.kind == "elem":
                locals_[nm] = Val(ty, z3.Const(nm, srt))
            else:
                locals_[nm] = Val(ty, None, meta=dict(lower=z3.Const(nm + "_lower", srt), upper=z3.Const(nm + "_upper", srt)))
            continue
        v = Val(ty, z3.Const(nm if nm != "_" else "underscore_", ty.sort()))
        ex.assume_type(v)
        if ty.kind == "dict":
            from . import models
            ex.assume(z3.Or(v.t == 0, models.dict_wf(ex, v)))
        locals_[nm] = v
        if alias:
            locals_[alias] = v
        for an, pn in con.aliases.items():
            if pn == nm:
                locals_[an] = v
    fr = Frame(fi, locals_, self_val, cls=cls, contract=con, parent_env=getattr(fi, "_env", None))
    return fr


def assume_axioms(ex, fr):
    for ax in spec.AXIOMS:
        if ax.only is not None and not any(ex.fnqual.split("#")[0].endswith(sfx) for sfx in ax.only):
            continue
        afr = Frame(fr.fi, {}, None)
        afr.spec = True
        try:
            ex.assume(ex.truth(ex.ev(ax.ast, afr)))
        except Unsupported as e:
            raise Unsupported(f"axiom {ax.name}: {e}")


def run_path(fi, con, prefix):
    dec = Decider(prefix)
    ex = Ex(dec, con.qual)
    ex.reveal = set(con.reveal)
    if con.elem_tier:
        ex.elem_tier = con.elem_tier
    ob_extra = []
    status = "ok"
    try:
        fr = setup(ex, fi, con)
        assume_axioms(ex, fr)
        ex.assume(ex.alloc[z3.IntVal(0)])      # object 0 (None) carries the global ghost state; it is never "fresh"
        ex.closure_on = True
        ex.good_heap()
        is_init = fi.name == "__init__"
        ex.self_stack = [fr.self_val.t] if (fr.self_val is not None and fr.self_val.t is not None) else []
        speceval.assume_invariants(ex, fi, exclude=ex.self_stack if is_init else ())
        for c in con.requires:
            ex.assume(speceval.clause(ex, c, fr))
        ex.good_heap()            # maps first touched by the precondition
        heap0, alloc0 = ex.snapshot()
        fr.old = (dict(heap0), alloc0, dict(fr.locals))
        entry_pc = list(ex.pc)
        res = None
        kind = "normal"
        try:
            ex.exec_block(fi.node.body, fr)
            res = vnone()
        except ReturnEx as r:
            res = r.val
        except RaiseEx as r:
            kind = "raise:" + r.name
        except PathEnd:
            kind = "end"
        except (BreakEx, ContinueEx):
            raise Unsupported("break/continue outside loop")
        loc = src.loc(fi)
        if kind == "normal":
            if con.returns is not None and res is not None:
                try:
                    res2 = ex.coerce(res, con.returns)
                    if con.returns.is_heap and (con.returns.args or con.returns.cls):
                        if res2.ty.kind == "list" and res2.t is None:
                            res2 = res2          # virtual lists keep their representation
                        else:
                            res2 = Val(con.returns, res2.t, meta=res2.meta)
                    res = res2
                except Unsupported:
                    pass
            fr.result = res
            # heap0 may have gained maps created lazily; treat maps absent at entry as their initial value
            for k, m in ex.heap.items():
                heap0.setdefault(k, None)
            for c in con.ensures:
                g = speceval.clause(ex, c, fr)
                ex.oblige("post", c.label, g, c.tags, loc, c.text)
            if con.value is not None and not con.ensures:
                was = fr.spec
                fr.spec = True
                try:
                    vv = ex.ev(con.value_ast, fr)
                finally:
                    fr.spec = was
                ex.oblige("post", "value", speceval.same_term(ex, res, vv), con.tags, loc, "result == " + con.value)
            h0 = {k: v for k, v in fr.old[0].items() if v is not None}
            speceval.frame_obligations(ex, fr, con, h0, alloc0, loc)
            if not con.pure:
                speceval.invariant_obligations(ex, fi, h0, alloc0, loc)
        elif kind.startswith("raise"):
            fr.result = vnone()
            for c in con.raises:
                g = speceval.clause(ex, c, fr)
                ex.oblige("raises", c.label, g, c.tags, loc, c.text)
        return dict(ex=ex, kind=kind, pending=dec.pending, trace=dec.trace, entry_pc=entry_pc, error=None)
    except Unsupported as e:
        return dict(ex=ex, kind="unsupported", pending=dec.pending, trace=dec.trace, entry_pc=None, error=str(e))


def verify_function(qual):
    t0 = time.time()
    out = FnResult(qual)
    fi = src.FUNCS.get(qual.split("#")[0])
    con = spec.CONTRACTS.get(qual)
    if fi is None:
        out.error = f"function {qual} not found in the current source"
        return out
    if con is None:
        out.error = f"no contract for {qual}"
        return out
    # first exploration: collect the write sets of all loop bodies (also of inlined callees); nothing is proved from it
    from . import core as _core
    try:
        _core.LOOP_MODE[0] = "collect"
        for k_ in [k_ for k_ in _core.LOOP_WRITES if k_[0] == fi.qual]:
            del _core.LOOP_WRITES[k_]
        pend0, n0 = [[]], 0
        while pend0 and n0 <= MAX_PATHS:
            n0 += 1
            r0 = run_path(fi, con, pend0.pop())
            pend0.extend(r0["pending"])
    except Exception:
        pass
    finally:
        _core.LOOP_MODE[0] = "use"
    pending = [[]]
    seen = {}
    entry_cover_done = False
    try:
        while pending:
            prefix = pending.pop()
            out.paths += 1
            if out.paths > MAX_PATHS:
                out.error = f"path explosion in {qual} (> {MAX_PATHS} paths)"
                break
            r = run_path(fi, con, prefix)
            ex = r["ex"]
            pending.extend(r["pending"])
            out.inlined |= ex.inlined
            out.used_contracts |= ex.used_contracts
            out.used_models |= ex.used_models
            out.field_reads |= getattr(ex, "field_reads", set())
            for n in ex.notes:
                if n not in out.notes:
                    out.notes.append(n)
            if getattr(ex, "loop_write_escape", None):
                raise RuntimeError(f"loop write set changed between the two explorations: {ex.loop_write_escape}")
            if r["error"]:
                # an unsupported construct on an infeasible path does not matter
                chk = z3.Solver()
                chk.set("timeout", 3000)
                chk.add(*ex.pc)
                if chk.check() == z3.unsat:
                    out.notes.append(f"infeasible path {r['trace']} skipped ({r['error'][:80]})")
                    continue
                out.error = r["error"]
                break
            if not entry_cover_done and r["entry_pc"] is not None:
                out.covers.append((f"{qual}::cover::entry", cover_smt2(r["entry_pc"])))
                entry_cover_done = True
            out.covers.append((f"{qual}::cover::path{out.paths}:{r['kind']}", cover_smt2(ex.pc)))
            for ob in ex.obls:
                pcids = tuple(t.get_id() for t in ob.pc)
                for extra, leaf in split_goal(ob.goal):
                    key = (ob.name, pcids, tuple(t.get_id() for t in extra), leaf.get_id()) if not _has_skolem(extra, leaf) else None
                    if key is not None and key in seen:
                        continue
                    vc = VC(ob, pc=ob.pc, extra=extra, goal=leaf)
                    vc.digest = hashlib.sha1(repr((ob.name, pcids, leaf.get_id(), len(extra))).encode()).hexdigest()
                    if key is not None:
                        seen[key] = vc
                    out.vcs.append(vc)
            out._keep = getattr(out, "_keep", []) + [ex]      # keep the terms alive (ast ids are reused otherwise)
    except Exception as e:        # internal error: never a violation
        out.error = f"internal error in pyvc: {type(e).__name__}: {e}\n{traceback.format_exc(limit=8)}"
        out.internal = True
    out.seconds = time.time() - t0
    return out


# ---------------------------------------------------------------------------------------------
# solver pool
BASELINE = None


def load_baseline():
    global BASELINE
    if BASELINE is None:
        import json
        pth = os.path.join(os.path.dirname(os.path.dirname(os.path.abspath(__file__))), "baseline", "obligations.json")
        try:
            BASELINE = json.load(open(pth))
        except Exception:
            BASELINE = {}
    return BASELINE


def budget_for(name, tier):
    """deterministic per-VC resource budget: 40x what the obligation needed on the unchanged tree"""
    base = load_baseline().get(name)
    mult = 1 if tier == "quick" else 4
    if base is None:
        return 40_000_000 * mult, False
    return max(25_000_000, min(40 * int(base), 600_000_000)) * mult, True


SEED = [0]
ISOLATE = os.environ.get("PYVC_ISOLATE", "1") == "1"


def _solve(args):
    kind, name, text, rlimit, timeout_ms, slots = args[:6]
    seed = args[6] if len(args) > 6 else 0
    rlimits = rlimit if isinstance(rlimit, (list, tuple)) else None
    out = []

    def fresh_solver():
        ctx_ = z3.Context()
        s_ = z3.Solver(ctx=ctx_)
        s_.set("auto_config", False)
        s_.set("smt.mbqi", False)
        s_.set("rlimit", rlimits[0] if rlimits else rlimit)
        s_.set("timeout", timeout_ms)
        if seed:
            s_.set("random_seed", seed)
        s_.from_string(text)
        return ctx_, s_

    def isolated(k, rl):
        ctx_ = z3.Context()
        s0 = z3.Solver(ctx=ctx_)
        s0.from_string(text)
        s_ = z3.Solver(ctx=ctx_)
        s_.set("auto_config", False)
        s_.set("smt.mbqi", False)
        s_.set("rlimit", rl)
        s_.set("timeout", timeout_ms)
        if seed:
            s_.set("random_seed", seed)
        for a in s0.assertions():
            if z3.is_implies(a) and z3.is_const(a.arg(0)) and a.arg(0).decl().name().startswith("__g") and a.arg(0).decl().name() != k:
                continue
            s_.add(a)
        return ctx_, s_
    try:
        ctx, s = fresh_solver()
    except Exception as e:
        return [(name, k, "error", f"{type(e).__name__}: {e}", None, 0.0) for k in (slots or [None])]
    dirty = False
    for n_k, k in enumerate(slots if slots is not None else [None]):
        t0 = time.time()
        try:
            if ISOLATE and k is not None and len(slots) > 1:
                # every goal in a solver of its own (same hypotheses, parsed once per goal): the ground terms of the other goals of
                # the group would otherwise take part in E-matching and make resource use depend on the grouping
                ctx, s = isolated(k, rlimits[n_k] if rlimits else rlimit)
            elif dirty:                 # a check that did not end in `unsat` leaves clutter behind: start clean
                ctx, s = fresh_solver()
                dirty = False
            if rlimits:
                s.set("rlimit", rlimits[n_k])
            r = s.check(z3.Bool(k, ctx)) if k is not None else s.check()
            dt = time.time() - t0
            rl = 0
            try:
                st_ = s.statistics()
                for k_ in st_.keys():
                    if k_ == "rlimit count":
                        rl = st_.get_key_value(k_)
            except Exception:
                pass
            if r != z3.unsat:
                dirty = True
            if r == z3.unsat:
                out.append((name, k, "unsat", f"rlimit={rl}", None, dt))
            elif r == z3.sat:
                out.append((name, k, "sat", "", _model_text(s), dt))
            else:
                reason = s.reason_unknown()
                if k is not None and len(slots) > 1 and "incomplete" not in reason:
                    # grouping is an optimisation only: the ground terms of the other goals of the group feed E-matching too.
                    # A goal that runs out of resources inside its group is decided on its own before it is classified.
                    try:
                        c2, s2 = isolated(k, rlimits[n_k] if rlimits else rlimit)
                        r2 = s2.check(z3.Bool(k, c2))
                        if r2 == z3.unsat:
                            rl2 = 0
                            st2 = s2.statistics()
                            for k_ in st2.keys():
                                if k_ == "rlimit count":
                                    rl2 = st2.get_key_value(k_)
                            out.append((name, k, "unsat", f"rlimit={rl2}", None, time.time() - t0))
                            continue
                        if r2 == z3.sat:
                            out.append((name, k, "sat", "", _model_text(s2), time.time() - t0))
                            continue
                        s, reason = s2, s2.reason_unknown()
                    except Exception:
                        pass
                model = None
                if "incomplete" in reason:
                    try:
                        model = _model_text(s)
                    except Exception:
                        model = None
                out.append((name, k, "unknown", reason, model, dt))
        except Exception as e:
            out.append((name, k, "error", f"{type(e).__name__}: {e}", None, time.time() - t0))
    return out


def _model_text(s, limit=6000):
    try:
        m = s.model()
    except Exception:
        return None
    rows = []
    for d in m.decls():
        nm = d.name()
        if nm.startswith("k!") or "?" in nm or nm.startswith("__g"):
            continue
        try:
            rows.append(f"{nm} = {m[d]}")
        except Exception:
            pass
    rows.sort(key=len)
    txt = "\n".join(rows)
    return txt[:limit]


GROUP_MAX = int(os.environ.get("PYVC_GROUP", "10"))


def discharge(vcs, covers, tier="quick", procs=None, single=False):
    """run every VC and cover; VCs that share their hypotheses are solved incrementally in one solver
    (guard literals + check-sat-assuming)"""
    rlimit = 150_000_000 if tier == "quick" else 600_000_000
    timeout = 900_000 if tier == "quick" else 3_600_000       # wall-clock backstop only; budgets are rlimits
    groups = {}
    twins = {}          # identical (hypotheses, goal) under different obligation names: solved once
    first = {}
    for i, vc in enumerate(vcs):
        key = tuple(t.get_id() for t in vc._pc)
        full = (key, tuple(t.get_id() for t in vc._extra), vc._goal.get_id())
        if full in first:
            twins.setdefault(first[full], []).append(i)
            continue
        first[full] = i
        groups.setdefault(key, []).append(i)
    jobs = []
    for key, idxs in groups.items():
        gmax = 1 if single else GROUP_MAX
        for c in range(0, len(idxs), gmax):
            chunk = idxs[c:c + gmax]
            sv = z3.Solver()
            for p in vcs[chunk[0]]._pc:
                sv.add(p)
            slots, rls = [], []
            for n_, i in enumerate(chunk):
                b_, known_ = budget_for(vcs[i].name, tier)
                con_ = spec.CONTRACTS.get(vcs[i].fnqual)
                if con_ is not None and con_.budget_mult != 1 and not known_:
                    b_ = min(b_ * con_.budget_mult, 2_000_000_000)
                rls.append(b_)
                vcs[i].in_baseline = known_
                g = z3.Bool(f"__g{n_}")
                vc = vcs[i]
                sv.add(z3.Implies(g, z3.And(list(vc._extra) + [z3.Not(vc._goal)])))
                slots.append(f"__g{n_}")
                vc.group, vc.slot = len(jobs), f"__g{n_}"
            jobs.append(("vc", tuple(chunk), sv.to_smt2(), rls, timeout, slots, SEED[0]))
    for i, (nm, text) in enumerate(covers):
        jobs.append(("cover", f"c{i}", text, rlimit // 8, 20_000, None))
    procs = procs or min(16, os.cpu_count() or 4)
    cover_res = {}
    if not jobs:
        return cover_res
    # longest groups first
    order = sorted(range(len(jobs)), key=lambda j: -len(jobs[j][5] or [1]))
    if len(jobs) <= 2 or procs == 1:
        results = {j: _solve(jobs[j]) for j in order}
    else:
        with mp.get_context("fork").Pool(procs) as pool:
            res = pool.map(_solve, [jobs[j] for j in order], chunksize=1)
        results = dict(zip(order, res))
    for j, job in enumerate(jobs):
        kind, key = job[0], job[1]
        for n_, (name, slot, st, reason, model, dt) in enumerate(results[j]):
            if kind == "vc":
                vc = vcs[key[n_]]
                vc.seconds = dt
                vc.backend = "z3-" + z3.get_version_string()
                vc.reason = reason
                vc.model = model
                if st == "unsat":
                    vc.status = "discharged"
                elif st == "sat":
                    vc.status = "failed"
                elif st == "unknown" and "incomplete" in reason:
                    vc.status = "failed"          # Boogie convention: not provable; candidate model attached
                elif st == "error":
                    vc.status = "error"
                elif getattr(vc, "in_baseline", False) and ("resource" in reason or "rlimit" in reason or "canceled" in reason or "max" in reason):
                    # discharged on the unchanged tree, now not provable with 40x that effort
                    vc.status = "failed"
                    vc.reason = "no proof within 40x the resource use recorded for this obligation on the unchanged tree (" + reason + ")"
                else:
                    vc.status = "undecided"       # resource limit / timeout on an obligation without baseline: never a violation
            else:
                i = int(key[1:])
                cover_res[covers[i][0]] = (st, reason)
    # second chance: a VC that ran out of resources is solved once more on its own (own process, own solver, same budget) - solver
    # behaviour inside a group depends on the other goals of the group and on what ran before in that process
    if not getattr(discharge, "_retrying", False):
        def exhausted(vc):
            # also an `incomplete quantifiers` answer for an obligation that was proved on the unchanged tree: E-matching saturation
            # depends on the search order; a real violation gives the same answer under every seed
            st_ = getattr(vc, "status", None)
            return st_ == "undecided" or (st_ == "failed" and "no proof within" in (vc.reason or "")) or \
                (st_ == "failed" and getattr(vc, "in_baseline", False) and "incomplete" in (vc.reason or ""))
        discharge._retrying = True
        try:
            for seed in (7, 23):              # alone again, with two other solver seeds: a proof that exists is found by one of them
                again = [vc for vc in vcs if exhausted(vc)]
                if not again:
                    break
                SEED[0] = seed
                discharge(again, [], tier, procs, single=True)
        finally:
            SEED[0] = 0
            discharge._retrying = False
    for i, others in twins.items():
        for o in others:
            for attr in ("seconds", "backend", "reason", "model", "status"):
                setattr(vcs[o], attr, getattr(vcs[i], attr))
            vcs[o].seconds = 0.0
    return cover_res
