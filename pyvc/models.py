"""Built-in semantics: operators, containers, Python built-ins.  (NumPy lives in npmodels.)
Everything here is part of the trusted encoding of Python's semantics and is exercised by the
CPython differential test (pyvc.selftest)."""
import ast

import z3

from . import smt, spec, src
from .core import Frame, is_instance, typeof, class_id, RaiseEx
from .smt import BOOL, FL, INT, REF
from .values import T, Ty, Unsupported, Val, vbool, vfl, vint, vnone, vref, vstr, vtuple

BUILTIN_NAMES = {
    "len", "isinstance", "getattr", "max", "min", "sum", "sorted", "reversed", "range", "enumerate", "zip", "abs", "int",
    "round", "str", "list", "dict", "all", "any", "isnan", "float", "bool", "print", "set", "tuple", "type",
    "ValueError", "NotImplementedError", "open", "next", "id", "hash", "copy", "deepcopy", "pearsonr",
}

MODULE_ALIASES = {"np": "numpy", "nla": "numpy.linalg", "nrand": "numpy.random", "sopt": "scipy.optimize",
                  "pkl": "dill", "numpy": "numpy", "random": "random", "time": "time", "uuid": "uuid",
                  "scipy": "scipy", "copy": "copy", "math": "math"}


def canon_module(name):
    head = name.split(".")[0]
    if head in MODULE_ALIASES:
        return ".".join([MODULE_ALIASES[head]] + name.split(".")[1:])
    return name


# ---------------------------------------------------------------------------------------------
# virtual lists: Val(list[...]) with t=None and meta['vlen'], meta['varrs']
def vlist(et, n, arrs, **meta):
    m = dict(vlen=n, varrs=list(arrs))
    m.update(meta)
    return Val(Ty("list", args=[et]), None, meta=m)


def is_virtual(v):
    return v.t is None and "vlen" in v.meta


def llen(ex, v):
    if is_virtual(v):
        return v.meta["vlen"]
    return ex.llen(v)


def larrs(ex, v):
    if is_virtual(v):
        return v.meta["varrs"]
    return ex.litems_arrays(v)


def litem(ex, v, idx):
    et = v.ty.args[0]
    comps = et.comps()
    arrs = larrs(ex, v)
    vals = [Val(ct, _sel(a, idx)) for a, ct in zip(arrs, comps)]
    if v.meta.get("elem_nonneg"):
        vals[0].meta["nonneg"] = True
    return vtuple(vals) if et.kind == "tuple" else vals[0]


def _sel(a, idx):
    if z3.is_quantifier(a) and a.is_lambda():
        return z3.substitute_vars(a.body(), idx)
    return a[idx]


def materialize(ex, v):
    """heap-allocate a virtual list"""
    if not is_virtual(v):
        return v
    et = v.ty.args[0]
    lst = ex.new_list(et)
    ex.set_len(lst, v.meta["vlen"])
    ex.lset_items(lst, v.meta["varrs"])
    return lst


def as_list(ex, v, fr, node=None):
    """view any finite iterable as a list value (virtual or heap)"""
    k = v.ty.kind
    if k == "list":
        return v
    if k == "range":
        lo, hi = v.meta["lo"], v.meta["hi"]
        if "step" in v.meta:
            raise Unsupported("range with a step as a sequence")
        j = z3.Int("j")
        if z3.is_int_value(lo) and lo.as_long() == 0 and _nonneg(hi):
            n = hi
        else:
            n = z3.If(hi - lo > 0, hi - lo, 0)
        return vlist(Ty("int"), n, [z3.Lambda([j], z3.simplify(lo + j))], elem_nonneg=_nonneg(lo))
    if k == "tuple" and v.items is not None:
        raise Unsupported("iteration over a tuple")
    if k == "dict":
        return dict_keys(ex, v)
    if k == "oarr" or (k == "arr" and v.ty.cls == "B"):
        from . import npmodels
        return npmodels.rows_as_list(ex, v, fr)
    raise Unsupported(f"iteration over {v.ty} at {src.loc(fr.fi, node) if node is not None else ''}")


def _nonneg(t):
    """syntactically non-negative integer terms (list lengths, literals, their sums)"""
    t = z3.simplify(t)
    if z3.is_int_value(t):
        return t.as_long() >= 0
    if z3.is_select(t):
        a = t.arg(0)
        return z3.is_const(a) and a.decl().name().startswith("H_$len")
    if z3.is_add(t):
        return all(_nonneg(c) for c in t.children())
    return False


def iter_seq(ex, it, fr, node):
    lst = as_list(ex, it, fr, node)
    n = llen(ex, lst)
    return n, (lambda i: litem(ex, lst, i))


def dict_keys(ex, d):
    kt, vt = d.ty.args
    return vlist(kt, ex.hmap("$dlen", INT)[d.t], [dmap(ex, "$dkey", d, z3.ArraySort(INT, kt.sort()))[d.t]])


def dmap(ex, name, d, sort):
    kt, vt = d.ty.args
    return ex.hmap(f"{name}", sort)


def dict_parts(ex, d):
    kt, vt = d.ty.args
    ks, vs = kt.sort(), vt.sort()
    return dict(
        dlen=ex.hmap("$dlen", INT),
        dkey=ex.hmap("$dkey", z3.ArraySort(INT, ks)),
        dhas=ex.hmap("$dhas", z3.ArraySort(ks, BOOL)),
        dval=ex.hmap("$dval", z3.ArraySort(ks, vs)),
        didx=ex.hmap("$didx", z3.ArraySort(ks, INT)),
    )


_WF_SEEN = {}


def dict_wf(ex, d):
    """well-formedness of a dict value read from the heap (ordered distinct keys; has/idx inverse)"""
    p = dict_parts(ex, d)
    kt = d.ty.args[0]
    i = z3.Const(f"i?{next(ex.cnt)}", INT)
    k = z3.Const(f"k?{next(ex.cnt)}", kt.sort())
    n = p["dlen"][d.t]
    key, has, idx = p["dkey"][d.t], p["dhas"][d.t], p["didx"][d.t]
    return z3.And(
        n >= 0,
        z3.ForAll([i], z3.Implies(z3.And(0 <= i, i < n), z3.And(has[key[i]], idx[key[i]] == i)), patterns=[key[i]], qid="dict_wf_keys"),
        # split so that no instance creates a term that triggers the other axiom again (key[idx[key[i]]] for an index out of range
        # would otherwise start an unbounded chain)
        z3.ForAll([k], z3.Implies(has[k], z3.And(0 <= idx[k], idx[k] < n)), patterns=[has[k]], qid="dict_wf_has"),
        z3.ForAll([k], z3.Implies(has[k], key[idx[k]] == k), patterns=[key[idx[k]]], qid="dict_wf_back"),
    )


def new_dict(ex, kt, vt):
    r = ex.new_obj("dict")
    d = Val(Ty("dict", args=[kt, vt]), r)
    p = dict_parts(ex, d)
    ex.hset("$dlen", INT, z3.Store(p["dlen"], r, z3.IntVal(0)))
    ks = kt.sort()
    ex.hset("$dhas", z3.ArraySort(ks, BOOL), z3.Store(p["dhas"], r, z3.K(ks, z3.BoolVal(False))))
    return d


def dict_set(ex, d, k, v):
    kt, vt = d.ty.args
    p = dict_parts(ex, d)
    ks, vs = kt.sort(), vt.sort()
    kk = ex.coerce(k, kt).t
    vv = ex.coerce(v, vt).t
    n = p["dlen"][d.t]
    had = p["dhas"][d.t][kk]
    ex.hset("$dlen", INT, z3.Store(p["dlen"], d.t, z3.If(had, n, n + 1)))
    ex.hset("$dkey", z3.ArraySort(INT, ks), z3.Store(p["dkey"], d.t, z3.If(had, p["dkey"][d.t], z3.Store(p["dkey"][d.t], n, kk))))
    ex.hset("$dhas", z3.ArraySort(ks, BOOL), z3.Store(p["dhas"], d.t, z3.Store(p["dhas"][d.t], kk, z3.BoolVal(True))))
    ex.hset("$dval", z3.ArraySort(ks, vs), z3.Store(p["dval"], d.t, z3.Store(p["dval"][d.t], kk, vv)))
    ex.hset("$didx", z3.ArraySort(ks, INT), z3.Store(p["didx"], d.t, z3.If(had, p["didx"][d.t], z3.Store(p["didx"][d.t], kk, n))))


def dict_get(ex, d, k):
    kt, vt = d.ty.args
    p = dict_parts(ex, d)
    kk = ex.coerce(k, kt).t
    v = Val(vt, p["dval"][d.t][kk])
    return v, p["dhas"][d.t][kk]


def dict_display(ex, e, fr):
    keys = [ex.ev(k, fr) for k in e.keys]
    vals = [ex.ev(v, fr) for v in e.values]
    if keys and all(isinstance(k, ast.Constant) and isinstance(k.value, str) for k in e.keys):
        # record dict with literal string keys
        r = ex.new_obj("rec")
        rec = Val(Ty("rec"), r, meta=dict(keys={}))
        for kn, v in zip(e.keys, vals):
            rec_set(ex, rec, kn.value, v)
        return rec
    if not keys:
        return Val(Ty("emptydict"), None)
    if all(k.ty.kind == "cls" for k in keys) and all(v.ty.kind == "cls" for v in vals):
        return Val(Ty("classmap"), None, meta=dict(table={k.name: v.name for k, v in zip(keys, vals)}, parts=None))
    kt, vt = keys[0].ty, vals[0].ty
    d = new_dict(ex, kt, vt)
    for k, v in zip(keys, vals):
        dict_set(ex, d, k, v)
    return d


def rec_set(ex, rec, key, v):
    if v.ty.kind in ("fn", "cls", "mod", "lambda"):
        rec.meta.setdefault("fnvals", {})[key] = v
        ex.wr(rec.t, f"has${key}", vbool(True))
        return
    ft = spec.field_type("$rec", key) or v.ty
    ex.wr(rec.t, f"has${key}", vbool(True))
    ex.wr(rec.t, f"val${key}", v, ft)
    rec.meta.setdefault("keys", {})[key] = ft


def rec_has(ex, rec, key):
    return ex.rd(rec.t, f"has${key}", "bool")


def rec_get(ex, rec, key):
    fv_ = rec.meta.get("fnvals", {}).get(key)
    if fv_ is not None:
        return fv_
    ft = spec.field_type("$rec", key) or rec.meta.get("keys", {}).get(key)
    if ft is None:
        raise Unsupported(f"record-dict key {key!r} has no declared type")
    return ex.rd(rec.t, f"val${key}", ft)


# ---------------------------------------------------------------------------------------------
def fstring(ex, e, fr):
    parts = []
    for p in e.values:
        if isinstance(p, ast.Constant):
            parts.append(smt.str_lit(p.value))
        elif isinstance(p, ast.FormattedValue):
            v = ex.ev(p.value, fr)
            sp = ""
            if p.format_spec is not None:
                if len(p.format_spec.values) == 1 and isinstance(p.format_spec.values[0], ast.Constant):
                    sp = p.format_spec.values[0].value
                else:
                    raise Unsupported("dynamic format spec")
            parts.append(to_str(ex, v, sp))
        else:
            raise Unsupported("f-string part")
    return Val(Ty("str"), cat(parts))


def cat(parts):
    if not parts:
        return smt.str_lit("")
    t = parts[-1]
    for p in reversed(parts[:-1]):
        t = smt.STR.SCat(p, t)
    return t


def to_str(ex, v, sp=""):
    k = v.ty.kind
    smt.str_lit(sp)
    spid = z3.IntVal(smt._LITS[sp])
    if k == "str":
        return v.t
    if k == "int":
        return smt.STR.SInt(v.t) if not sp else smt.STR.SFl(spid, smt.Fin(z3.ToReal(v.t)))
    if k == "fl":
        return smt.STR.SFl(spid, v.t)
    if k == "g":
        return smt.STR.SG(spid, v.t)
    if k == "bool":
        return smt.STR.SInt(z3.If(v.t, 1, 0))
    if k == "none":
        return smt.str_lit("None")
    if v.ty.is_heap:
        return smt.STR.SOpq(v.t)
    if k == "oint":
        return z3.If(smt.OINT.is_INone(v.t), smt.str_lit("None"), smt.STR.SInt(smt.OINT.iv(v.t)))
    raise Unsupported(f"str() of {v.ty}")


# ---------------------------------------------------------------------------------------------
def num_kind(a, b):
    ks = {a.ty.kind, b.ty.kind}
    if ks <= {"int", "bool"}:
        return "int"
    if ks <= {"int", "bool", "fl", "none"} and "fl" in ks:
        return "fl"
    if ks <= {"int", "oint", "none"}:
        return "oint"
    if ks <= {"real", "int"}:
        return "real"
    return None


def binop(ex, op, a, b, fr, inplace=False, node=None):
    from . import npmodels
    if a.ty.kind in ("arr", "g", "oarr") or b.ty.kind in ("arr", "g", "oarr") or a.ty.kind.startswith("elem") or b.ty.kind.startswith("elem"):
        return npmodels.binop(ex, op, a, b, fr, inplace, node)
    nk = num_kind(a, b)
    sym = {"Add": "+", "Sub": "-", "Mult": "*", "Div": "/"}.get(op)
    if nk == "int" and op != "Div" and op != "Pow":
        x, y = ex.coerce(a, "int").t, ex.coerce(b, "int").t
        if op == "Add":
            return vint(x + y)
        if op == "Sub":
            return vint(x - y)
        if op == "Mult":
            return vint(x * y)
        if op == "FloorDiv":
            return vint(x / y)      # z3 integer division = floor for a positive divisor (all uses)
        if op == "Mod":
            return vint(x % y)
    if nk == "real":
        x, y = ex.coerce(a, "real").t, ex.coerce(b, "real").t
        r = {"Add": x + y, "Sub": x - y, "Mult": x * y}.get(op)
        if r is not None:
            return Val(Ty("real"), r)
        if op == "Div":
            return Val(Ty("real"), x / y)
    if nk in ("int", "fl") and sym:
        x, y = ex.coerce(a, "fl").t, ex.coerce(b, "fl").t
        return vfl(smt.fl_arith(sym, x, y))
    if nk == "oint" and sym in ("+", "-", "*"):
        x, y = ex.coerce(a, "int").t, ex.coerce(b, "int").t     # arithmetic on None raises: partial correctness
        return vint({"+": x + y, "-": x - y, "*": x * y}[sym])
    if nk in ("int", "fl") and op == "Pow":
        f = _unint("pow_fl", FL, FL, FL)
        return vfl(f(ex.coerce(a, "fl").t, ex.coerce(b, "fl").t))
    if a.ty.kind == "str" and b.ty.kind == "str" and op == "Add":
        return Val(Ty("str"), smt.STR.SCat(a.t, b.t))
    if a.ty.kind == "list" and b.ty.kind == "list" and op == "Add":
        return list_concat(ex, a, b)
    if a.ty.kind == "list" and b.ty.kind == "int" and op == "Mult":
        na = llen(ex, a)
        j = z3.Int("j")
        reps = z3.If(b.t > 0, b.t, 0)
        return vlist(a.ty.args[0], na * reps, [z3.Lambda([j], _sel(x, j % na)) for x in larrs(ex, a)])
    if op == "BitOr" and (a.ty.kind in ("emptydict", "classmap") or (a.ty.kind == "ref" and a.ty.cls == "$ClassMap")) \
            and b.ty.kind == "classmap":
        # user map | built-in table: for keys present in both the right operand wins
        return Val(Ty("classmap"), None, meta=dict(table=dict(b.meta["table"]), user=a))
    if op == "BitOr" and a.ty.kind == "classmap" and (b.ty.kind in ("emptydict",) or (b.ty.kind == "ref" and b.ty.cls == "$ClassMap")):
        # built-in table | user map: equal to the other order under the stated assumption that the user's keys
        # are disjoint from the built-in ones (DESIGN 4.3); without it "the engine configured for a level" is ambiguous
        return Val(Ty("classmap"), None, meta=dict(table=dict(a.meta["table"]), user=b))
    raise Unsupported(f"binary {op} on {a.ty}, {b.ty} at {src.loc(fr.fi, node) if node is not None else ''}")


_UN = {}


def _unint(name, *sorts):
    if name not in _UN:
        _UN[name] = z3.Function(name, *sorts)
    return _UN[name]


def list_concat(ex, a, b):
    et = a.ty.args[0]
    na, nb = llen(ex, a), llen(ex, b)
    j = z3.Int("j")
    arrs = []
    for x, y in zip(larrs(ex, a), larrs(ex, b)):
        arrs.append(z3.Lambda([j], z3.If(j < na, _sel(x, j), _sel(y, j - na))))
    return vlist(et, na + nb, arrs)


def invert(ex, v, fr):
    from . import npmodels
    return npmodels.invert(ex, v, fr)


def individual_lt(ex, a, b, fr, node):
    """a < b through the class' __lt__ (contract or body)"""
    return ex.call_method(a, "__lt__", [b], {}, fr, node)


def has_method(v, m):
    return v.ty.kind == "ref" and v.ty.cls in src.CLASSES and src.resolve_method(v.ty.cls, m) is not None


def compare(ex, op, a, b, fr, node):
    from . import npmodels
    if fr.spec and op in ("Eq", "NotEq") and (a.ty.is_heap or a.ty.kind == "none") and (b.ty.is_heap or b.ty.kind == "none"):
        from .speceval import same_term
        t = same_term(ex, a, b)
        return vbool(t if op == "Eq" else z3.Not(t))
    if a.ty.kind == "arr" or b.ty.kind == "arr" or a.ty.kind.startswith("elem") or b.ty.kind.startswith("elem"):
        return npmodels.compare(ex, op, a, b, fr, node)
    if op in ("Is", "IsNot"):
        from .speceval import same_term
        t = same_term(ex, a, b)
        return vbool(t if op == "Is" else z3.Not(t))
    if op in ("In", "NotIn"):
        t = contains(ex, b, a, fr, node)
        return vbool(t if op == "In" else z3.Not(t))
    if op in ("Eq", "NotEq"):
        if has_method(a, "__eq__"):
            r = ex.truth(ex.call_method(a, "__eq__", [b], {}, fr, node))
            return vbool(r if op == "Eq" else z3.Not(r))
        t = eq_values(ex, a, b)
        return vbool(t if op == "Eq" else z3.Not(t))
    # ordering
    if has_method(a, "__lt__"):
        ci = src.CLASSES[a.ty.cls]
        lt = lambda x, y: ex.truth(ex.call_method(x, "__lt__", [y], {}, fr, node))
        eq = lambda x, y: ex.truth(ex.call_method(x, "__eq__", [y], {}, fr, node))
        if op == "Lt":
            return vbool(lt(a, b))
        if "total_ordering" not in ci.decorators:
            raise Unsupported(f"{op} on {a.ty.cls} without total_ordering")
        # functools.total_ordering, derived from __lt__ and __eq__ exactly as CPython does
        if op == "Gt":
            return vbool(z3.And(z3.Not(lt(a, b)), z3.Not(eq(a, b))))
        if op == "LtE":
            return vbool(z3.Or(lt(a, b), eq(a, b)))
        if op == "GtE":
            return vbool(z3.Not(lt(a, b)))
    nk = num_kind(a, b)
    if nk == "int":
        x, y = ex.coerce(a, "int").t, ex.coerce(b, "int").t
        return vbool({"Lt": x < y, "LtE": x <= y, "Gt": x > y, "GtE": x >= y}[op])
    if nk == "real":
        x, y = ex.coerce(a, "real").t, ex.coerce(b, "real").t
        return vbool({"Lt": x < y, "LtE": x <= y, "Gt": x > y, "GtE": x >= y}[op])
    if nk == "fl":
        x, y = ex.coerce(a, "fl").t, ex.coerce(b, "fl").t
        return vbool({"Lt": smt.fl_lt(x, y), "LtE": smt.fl_le(x, y), "Gt": smt.fl_lt(y, x), "GtE": smt.fl_le(y, x)}[op])
    if nk == "oint":
        x, y = ex.coerce(a, "int").t, ex.coerce(b, "int").t
        return vbool({"Lt": x < y, "LtE": x <= y, "Gt": x > y, "GtE": x >= y}[op])
    raise Unsupported(f"comparison {op} on {a.ty}, {b.ty}")


def eq_values(ex, a, b):
    from .speceval import same_term, is_none
    if a.ty.kind == "bool" and b.ty.kind == "bool":
        return a.t == b.t
    nk = num_kind(a, b)
    if a.ty.kind == "none" or b.ty.kind == "none":
        return same_term(ex, a, b)
    if nk == "int":
        return ex.coerce(a, "int").t == ex.coerce(b, "int").t
    if nk == "fl":
        return smt.fl_eq(ex.coerce(a, "fl").t, ex.coerce(b, "fl").t)
    if nk == "oint":
        return ex.coerce(a, "oint").t == ex.coerce(b, "oint").t
    if nk == "real":
        return ex.coerce(a, "real").t == ex.coerce(b, "real").t
    if a.ty.kind == "str" and b.ty.kind == "str":
        return a.t == b.t
    if a.ty.kind == "bool" and b.ty.kind == "bool":
        return a.t == b.t
    if a.ty.is_heap and b.ty.is_heap:
        if a.t is None or b.t is None:
            # a lambda-defined (virtual) list has no identity: comparing it with `==` is outside the supported subset
            raise Unsupported(f"== on a list value without identity ({a.ty}, {b.ty})")
        return a.t == b.t       # identity (classes without __eq__)
    if a.ty.kind == "tuple" and b.ty.kind == "tuple":
        return z3.And([eq_values(ex, x, y) for x, y in zip(a.items, b.items)])
    if a.ty.kind == "cls" and b.ty.kind == "cls":
        return z3.BoolVal(a.name == b.name)
    if a.ty.kind == "g" and b.ty.kind == "g":
        return a.t == b.t
    raise Unsupported(f"== on {a.ty}, {b.ty}")


def contains(ex, cont, x, fr, node):
    k = cont.ty.kind
    if k == "list":
        n = llen(ex, cont)
        i = z3.Const(f"i?{next(ex.cnt)}", INT)
        et = cont.ty.args[0]
        el = litem(ex, cont, i)
        if has_method(x, "__eq__"):
            raise Unsupported("`in` on a list of objects with __eq__")
        return z3.Exists([i], z3.And(0 <= i, i < n, eq_values(ex, el, x)))
    if k == "dict":
        _, has = dict_get(ex, cont, x)
        return has
    if k == "rec":
        if x.ty.kind == "str" and z3.is_app(x.t):
            key = lit_of(x.t)
            if key is not None:
                return rec_has(ex, cont, key).t
        raise Unsupported("`in` on a record dict with a non-literal key")
    if k == "objdict":
        key = lit_of(x.t)
        if key is None:
            raise Unsupported("`in obj.__dict__` with a non-literal key")
        if key in cont.meta["over"]:
            return z3.BoolVal(True)
        return ex.rd(cont.t, f"hasattr${key}", "bool").t
    raise Unsupported(f"`in` on {cont.ty}")


def lit_of(t):
    """python string of an SLit term, or None"""
    try:
        if t.decl().name() == "SLit":
            n = t.arg(0).as_long()
            for s, i in smt._LITS.items():
                if i == n:
                    return s
    except Exception:
        pass
    return None


# ---------------------------------------------------------------------------------------------
def norm_index(ex, n, iv, node, spec=False):
    """python index -> 0-based (negative constants count from the end)"""
    t = iv.t
    if spec and not z3.is_int_value(t) and not (isinstance(node, ast.UnaryOp) and isinstance(node.op, ast.USub)):
        return t          # specifications index with non-negative terms
    if iv.meta.get("nonneg") or _nonneg(t):
        return t
    if z3.is_int_value(t):
        c = t.as_long()
        return n + c if c < 0 else t
    if isinstance(node, ast.UnaryOp) and isinstance(node.op, ast.USub):
        return n + t
    return z3.If(t < 0, n + t, t)


def slice_bounds(ex, n, sl, fr):
    def one(nd, default):
        if nd is None:
            return default
        v = ex.ev(nd, fr)
        if v.ty.kind == "none":
            return default
        t = ex.coerce(v, "int").t
        raw = z3.simplify(z3.If(t < 0, n + t, t))
        return z3.If(raw < 0, 0, z3.If(raw > n, n, raw))
    if sl.step is not None:
        raise Unsupported("slice step")
    lo = one(sl.lower, z3.IntVal(0))
    hi = one(sl.upper, n)
    return lo, hi


def subscript(ex, v, sl, fr, node):
    from . import npmodels
    k = v.ty.kind
    if k in ("arr", "g", "shape", "elem", "ebounds"):
        return npmodels.subscript(ex, v, sl, fr, node)
    if k == "list":
        n = llen(ex, v)
        if isinstance(sl, ast.Slice):
            lo, hi = slice_bounds(ex, n, sl, fr)
            j = z3.Int("j")
            ln = z3.If(hi - lo > 0, hi - lo, 0)
            if z3.is_int_value(z3.simplify(lo)) and z3.simplify(lo).as_long() == 0:
                return vlist(v.ty.args[0], z3.simplify(hi), larrs(ex, v))      # a prefix shares the item functions
            arrs = [z3.Lambda([j], _sel(a, lo + j)) for a in larrs(ex, v)]
            return vlist(v.ty.args[0], z3.simplify(ln), arrs)
        iv = ex.ev(sl, fr)
        if iv.ty.kind == "arr":
            return npmodels.list_index_by_array(ex, v, iv, fr, node)
        idx = norm_index(ex, n, ex.coerce(iv, "int"), sl, spec=fr.spec)
        if not fr.spec:
            ex.assume(z3.And(0 <= idx, idx < n))       # IndexError otherwise: exceptional path
        el = litem(ex, v, idx)
        if not fr.spec:
            ex.elem_assume(el)
        else:
            _spec_elem_type(ex, el)
        return el
    if k == "dict":
        key = ex.ev(sl, fr)
        val, has = dict_get(ex, v, key)
        if not fr.spec:
            ex.assume(has)                             # KeyError otherwise
            ex.assume_type(val)
        return val
    if k == "rec":
        key = ex.ev(sl, fr)
        ks = lit_of(key.t) if key.ty.kind == "str" else None
        if ks is None:
            raise Unsupported("record dict indexed by a non-literal key")
        if not fr.spec:
            ex.assume(rec_has(ex, v, ks).t)
        return rec_get(ex, v, ks)
    if k == "objdict":
        key = ex.ev(sl, fr)
        ks = lit_of(key.t)
        if ks is None:
            raise Unsupported("__dict__ indexed by a non-literal key")
        if ks in v.meta["over"]:
            return v.meta["over"][ks]
        return ex.getattr(vref(v.t, v.meta["cls"]), ks, fr, node)
    if k == "tuple" and v.items is not None:
        iv = ex.ev(sl, fr)
        if z3.is_int_value(iv.t):
            return v.items[iv.t.as_long()]
        raise Unsupported("tuple indexed by a symbolic index")
    if k == "classmap":
        key = ex.ev(sl, fr)
        if key.ty.kind != "clsof":
            raise Unsupported("class map indexed by something that is not type(x)")
        return Val(Ty("dynclass"), key.t, meta=dict(map=v))
    raise Unsupported(f"subscript on {v.ty} at {src.loc(fr.fi, node)}")


def _spec_elem_type(ex, el):
    pass


def assign_subscript(ex, tg, v, fr):
    from . import npmodels
    cont = ex.ev(tg.value, fr)
    k = cont.ty.kind
    if k == "list":
        if is_virtual(cont):
            raise Unsupported("item assignment on a temporary list")
        n = ex.llen(cont)
        iv = ex.ev(tg.slice, fr)
        idx = norm_index(ex, n, ex.coerce(iv, "int"), tg.slice)
        ex.assume(z3.And(0 <= idx, idx < n))
        et = cont.ty.args[0]
        arrs = ex.litems_arrays(cont)
        vs = v.items if et.kind == "tuple" else [v]
        ex.lset_items(cont, [z3.Store(a, idx, ex.coerce(x, ct).t) for a, x, ct in zip(arrs, vs, et.comps())])
        return
    if k == "dict":
        key = ex.ev(tg.slice, fr)
        dict_set(ex, cont, key, v)
        return
    if k == "emptydict":
        raise Unsupported("store into a dict whose type is unknown: declare the local in the contract (locals=)")
    if k == "rec":
        key = ex.ev(tg.slice, fr)
        ks = lit_of(key.t)
        if ks is None:
            raise Unsupported("record dict store with non-literal key")
        rec_set(ex, cont, ks, v)
        return
    if k == "objdict":
        key = ex.ev(tg.slice, fr)
        ks = lit_of(key.t)
        cont.meta["over"][ks] = v
        return
    if k in ("arr",):
        return npmodels.assign_subscript(ex, cont, tg, v, fr)
    raise Unsupported(f"subscript assignment on {cont.ty}")


# ---------------------------------------------------------------------------------------------
def getattr_builtin(ex, v, attr, fr, node):
    from . import npmodels
    k = v.ty.kind
    if k == "mod":
        name = canon_module(v.name + "." + attr)
        if name in ("numpy.inf",):
            return vfl(smt.PosInf)
        if name in ("numpy.nan",):
            return vfl(smt.NaN)
        if name in ("numpy.newaxis",):
            return vnone()
        return Val(Ty("fn"), name=name)
    if k == "fn" and v.name is not None and v.fn is None:
        return Val(Ty("fn"), name=v.name + "." + attr, bound=v.bound)
    if k == "cls":
        ci = src.CLASSES.get(v.name)
        if ci is not None:
            fi = src.resolve_method(v.name, attr)
            if fi is not None:
                return Val(Ty("fn"), fn=fi, bound=(v if fi.kind == "classmethod" else None))
            for c in src.mro(v.name):
                cc = src.CLASSES.get(c)
                if cc and attr in cc.class_attrs:
                    if "Enum" in src.mro(v.name):
                        return ex.ev(cc.class_attrs[attr], Frame(_mod(cc.module), {}, None))
                    return ex.ev(cc.class_attrs[attr], Frame(_mod(cc.module), {}, None))
            if attr == "__name__":
                return vstr(v.name)
        raise Unsupported(f"class attribute {v.name}.{attr}")
    if k in ("list", "dict", "str", "rec", "objdict", "emptydict", "clsof", "clsof_config"):
        if k == "clsof" and attr == "__name__":
            return Val(Ty("str"), smt.STR.SOpq(typeof(v.t)))
        return Val(Ty("fn"), name=f"{k}.{attr}", bound=v)
    if k in ("arr", "g", "elem", "shape"):
        return npmodels.getattr(ex, v, attr, fr, node)
    if k == "ext":
        return Val(Ty("fn"), name=f"ext.{v.ty.cls}.{attr}", bound=v)
    if k == "ref":
        raise Unsupported(f"attribute {attr} on {v.ty}")
    raise Unsupported(f"attribute {attr} on {v.ty} at {src.loc(fr.fi, node)}")


def _mod(module):
    from .core import _ModFi
    return _ModFi(module)


# ---------------------------------------------------------------------------------------------
def lt_fn(ex, et, fr, node, key=None):
    """strict 'less than' on list elements (used by max/min/sorted): through __lt__ for objects"""
    def lt(x, y):
        if key is not None:
            x, y = ex.call_value(key, [x], {}, fr, node), ex.call_value(key, [y], {}, fr, node)
        return ex.truth(compare(ex, "Lt", x, y, fr, node))
    return lt


def gt_fn(ex, et, fr, node, key=None):
    def gt(x, y):
        if key is not None:
            x, y = ex.call_value(key, [x], {}, fr, node), ex.call_value(key, [y], {}, fr, node)
        return ex.truth(compare(ex, "Gt", x, y, fr, node))
    return gt


def builtin_max(ex, lst, fr, node, which="max", default=None, key=None):
    """Python's max: the first element e such that no element is > e.  Encoded as: the result is
    element k; nothing is greater than it; it is greater than... (first maximal) every earlier
    element is not >= in the sense `not (earlier == result-class)`: CPython keeps the first
    maximal one, i.e. every earlier element is strictly smaller *or* incomparable-not-greater;
    we state only what holds for every comparison function: nothing later-or-earlier is greater
    than the result (as CPython computes with `>`), and no earlier element is 'equal-or-greater'
    under the assumption that `>` is a strict weak order (DESIGN 4.2)."""
    n = llen(ex, lst)
    et = lst.ty.args[0]
    if ex.under_binder(fr):
        raise Unsupported(f"{which}() under a binder: give the enclosing accessor a heapfn contract")
    if not fr.spec:
        ex.oblige("call-pre", f"{which}_elements_comparable", z3.BoolVal(True), (), "", "")
        ex.obls.pop()
    cmp = gt_fn(ex, et, fr, node, key) if which == "max" else lt_fn(ex, et, fr, node, key)
    kx = ex.fresh(f"{which}_idx", INT)
    if not fr.spec:
        ex.assume(n > 0)           # ValueError on an empty sequence (unless default): exceptional
    res = litem(ex, lst, kx)
    i = z3.Const(f"i?{next(ex.cnt)}", INT)
    ei = litem(ex, lst, i)
    savedpc = len(ex.pc)
    ex.binder_depth = getattr(ex, "binder_depth", 0) + 1
    try:
        body1 = cmp(ei, res)
        body2 = cmp(res, ei)
    finally:
        ex.binder_depth -= 1
    del ex.pc[savedpc:]
    facts = z3.And(
        0 <= kx, kx < n,
        z3.ForAll([i], z3.Implies(z3.And(0 <= i, i < n), z3.Not(body1))),
        z3.ForAll([i], z3.Implies(z3.And(0 <= i, i < kx), body2)),
    )
    if default is not None:
        dres = ex.ite(n > 0, res, default)
        ex.assume(z3.Implies(n > 0, facts))
        return dres
    ex.assume(facts)
    ex.elem_assume(res)
    return res


def builtin_sorted(ex, lst, fr, node, reverse=False, key=None):
    n = llen(ex, lst)
    et = lst.ty.args[0]
    if ex.under_binder(fr):
        raise Unsupported("sorted() under a binder")
    lt = lt_fn(ex, et, fr, node, key)
    p = ex.fresh_fn("perm", INT, INT)
    pinv = ex.fresh_fn("pinv", INT, INT)
    j = z3.Int("j")
    arrs = [z3.Lambda([j], _sel(a, p(j))) for a in larrs(ex, lst)]
    res = vlist(et, n, arrs, perm=p, pinv=pinv, src=lst)
    a, b = z3.Const(f"a?{next(ex.cnt)}", INT), z3.Const(f"b?{next(ex.cnt)}", INT)
    ea, eb = litem(ex, res, a), litem(ex, res, b)
    savedpc = len(ex.pc)
    ex.binder_depth = getattr(ex, "binder_depth", 0) + 1
    try:
        lt_ab, lt_ba = lt(ea, eb), lt(eb, ea)
    finally:
        ex.binder_depth -= 1
    del ex.pc[savedpc:]
    inr = lambda x: z3.And(0 <= x, x < n)
    ex.assume(z3.ForAll([a], z3.Implies(inr(a), z3.And(inr(p(a)), pinv(p(a)) == a)), patterns=[p(a)]))
    ex.assume(z3.ForAll([a], z3.Implies(inr(a), z3.And(inr(pinv(a)), p(pinv(a)) == a)), patterns=[pinv(a)]))
    if reverse:
        order = z3.Not(lt_ab)         # earlier is never smaller than later
    else:
        order = z3.Not(lt_ba)
    stable = z3.Implies(z3.And(z3.Not(lt_ab), z3.Not(lt_ba)), p(a) < p(b))
    ex.assume(z3.ForAll([a, b], z3.Implies(z3.And(inr(a), inr(b), a < b), z3.And(order, stable)), patterns=[z3.MultiPattern(p(a), p(b))]))
    return res


def call_builtin(ex, fv_, args, kwargs, fr, node):
    from . import npmodels
    name = fv_.name
    # contracts for externals written in the sidecar take precedence
    con = spec.CONTRACTS.get("ext." + name) or spec.CONTRACTS.get(name if name.startswith("ext.") else "ext." + name)
    if con is not None:
        ex.used_contracts.add(con.qual)
        return ex.apply_contract(con, None, fv_.bound, args, kwargs, fr, node)
    h = HANDLERS.get(name)
    if h is not None:
        ex.used_models.add(name)
        return h(ex, fv_, args, kwargs, fr, node)
    r = npmodels.call(ex, name, fv_, args, kwargs, fr, node)
    if r is not NotImplemented:
        ex.used_models.add(name)
        return r
    raise Unsupported(f"no model for {name} at {src.loc(fr.fi, node)}")


HANDLERS = {}


def handler(*names):
    def deco(f):
        for n in names:
            HANDLERS[n] = f
        return f
    return deco


@handler("len")
def _len(ex, fv_, args, kwargs, fr, node):
    from . import npmodels
    v = args[0]
    if v.ty.kind == "list":
        return vint(llen(ex, v))
    if v.ty.kind == "dict":
        return vint(ex.hmap("$dlen", INT)[v.t])
    if v.ty.kind in ("arr", "g", "oarr"):
        return npmodels.length(ex, v)
    if v.ty.kind == "tuple":
        return vint(len(v.items))
    raise Unsupported(f"len of {v.ty}")


@handler("isinstance")
def _isinstance(ex, fv_, args, kwargs, fr, node):
    v, c = args
    if c.ty.kind != "cls":
        if c.ty.kind == "fn" and c.name == "str":
            return vbool(v.ty.kind == "str") if v.ty.kind != "weights" else vbool(v.meta["is_str"])
        if c.ty.kind == "fn" and c.name == "list":
            return vbool(v.ty.kind == "list")
        raise Unsupported("isinstance with a non-class")
    if v.ty.kind == "ref":
        return vbool(z3.And(v.t != 0, is_instance(v.t, c.name)))
    if v.ty.kind == "weights" and c.name == "str":
        return vbool(v.meta["is_str"])
    return vbool(False)


@handler("abs")
def _abs(ex, fv_, args, kwargs, fr, node):
    v = args[0]
    if v.ty.kind == "int":
        return vint(z3.If(v.t >= 0, v.t, -v.t))
    if v.ty.kind == "fl":
        return vfl(smt.fl_abs(v.t))
    if v.ty.kind == "real":
        return Val(Ty("real"), z3.If(v.t >= 0, v.t, -v.t))
    raise Unsupported(f"abs of {v.ty}")


@handler("isnan", "math.isnan", "numpy.isnan")
def _isnan(ex, fv_, args, kwargs, fr, node):
    from . import npmodels
    v = args[0]
    if v.ty.kind in ("arr", "elem"):
        return npmodels.call(ex, "numpy.isnan", fv_, args, kwargs, fr, node)
    return vbool(smt.is_nan(ex.coerce(v, "fl").t))


@handler("numpy.isfinite", "math.isfinite")
def _isfinite(ex, fv_, args, kwargs, fr, node):
    v = args[0]
    if v.ty.kind in ("arr", "elem"):
        raise Unsupported("isfinite on arrays")
    return vbool(smt.is_fin(ex.coerce(v, "fl").t))


@handler("numpy.all", "numpy.any")
def _np_allany(ex, fv_, args, kwargs, fr, node):
    v = args[0]
    if v.ty.kind == "bool":            # numpy.all / numpy.any of a scalar
        return v
    from . import npmodels
    r = npmodels.call(ex, fv_.name, fv_, args, kwargs, fr, node)
    if r is NotImplemented:
        raise Unsupported(f"{fv_.name} on {v.ty}")
    return r


@handler("numpy.isinf", "math.isinf")
def _isinf(ex, fv_, args, kwargs, fr, node):
    v = ex.coerce(args[0], "fl")
    return vbool(z3.Or(smt.is_pinf(v.t), smt.is_ninf(v.t)))


@handler("range")
def _range(ex, fv_, args, kwargs, fr, node):
    if len(args) == 1:
        lo, hi = z3.IntVal(0), ex.coerce(args[0], "int").t
    elif len(args) == 2:
        lo, hi = ex.coerce(args[0], "int").t, ex.coerce(args[1], "int").t
    else:
        lo, hi, st = [ex.coerce(a, "int").t for a in args]
        return Val(Ty("range"), None, meta=dict(lo=lo, hi=hi, step=st))
    return Val(Ty("range"), None, meta=dict(lo=lo, hi=hi))


@handler("reversed")
def _reversed(ex, fv_, args, kwargs, fr, node):
    lst = as_list(ex, args[0], fr, node)
    n = llen(ex, lst)
    j = z3.Int("j")
    arrs = [z3.Lambda([j], _sel(a, n - 1 - j)) for a in larrs(ex, lst)]
    return vlist(lst.ty.args[0], n, arrs, rev_of=lst)


@handler("enumerate")
def _enumerate(ex, fv_, args, kwargs, fr, node):
    lst = as_list(ex, args[0], fr, node)
    n = llen(ex, lst)
    j = z3.Int("j")
    et = lst.ty.args[0]
    return vlist(Ty("tuple", args=[Ty("int")] + et.comps()) if et.kind == "tuple" else Ty("tuple", args=[Ty("int"), et]),
                 n, [z3.Lambda([j], j)] + larrs(ex, lst), elem_nonneg=True)


@handler("zip")
def _zip(ex, fv_, args, kwargs, fr, node):
    from . import npmodels
    ls = [npmodels.rows_as_list(ex, a, fr) if a.ty.kind == "arr" else as_list(ex, a, fr, node) for a in args]
    n = llen(ex, ls[0])
    for l in ls[1:]:
        m = llen(ex, l)
        n = z3.If(m < n, m, n)
    comps, arrs = [], []
    for l in ls:
        comps += l.ty.args[0].comps()
        arrs += larrs(ex, l)
    return vlist(Ty("tuple", args=comps), z3.simplify(n), arrs)


@handler("list")
def _list(ex, fv_, args, kwargs, fr, node):
    if not args:
        return ex.new_list(Ty("any"))
    return as_list(ex, args[0], fr, node)


@handler("max", "min")
def _max(ex, fv_, args, kwargs, fr, node):
    which = fv_.name
    if len(args) == 2 and args[0].ty.kind in ("int", "fl") and "key" not in kwargs:
        a, b = args
        c = ex.truth(compare(ex, "Gt" if which == "max" else "Lt", b, a, fr, node))
        return ex.ite(c, b, a)
    lst = as_list(ex, args[0], fr, node)
    return builtin_max(ex, lst, fr, node, which, default=kwargs.get("default"), key=kwargs.get("key"))


@handler("sorted")
def _sorted(ex, fv_, args, kwargs, fr, node):
    lst = as_list(ex, args[0], fr, node)
    rev = kwargs.get("reverse")
    if rev is not None and not z3.is_true(z3.simplify(rev.t)) and not z3.is_false(z3.simplify(rev.t)):
        # symbolic `reverse`: fork
        if ex.dec.decide(2) == 0:
            ex.assume(rev.t)
            return builtin_sorted(ex, lst, fr, node, True, kwargs.get("key"))
        ex.assume(z3.Not(rev.t))
        return builtin_sorted(ex, lst, fr, node, False, kwargs.get("key"))
    r = rev is not None and z3.is_true(z3.simplify(rev.t))
    return builtin_sorted(ex, lst, fr, node, r, kwargs.get("key"))


@handler("list.sort")
def _list_sort(ex, fv_, args, kwargs, fr, node):
    lst = fv_.bound
    rev = kwargs.get("reverse")
    r = rev is not None and z3.is_true(z3.simplify(rev.t))
    s = builtin_sorted(ex, lst, fr, node, r, kwargs.get("key"))
    if is_virtual(lst):
        lst.meta["varrs"] = s.meta["varrs"]
        lst.meta["perm"] = s.meta["perm"]
    else:
        ex.lset_items(lst, s.meta["varrs"])
    return vnone()


@handler("sum")
def _sum(ex, fv_, args, kwargs, fr, node):
    lst = as_list(ex, args[0], fr, node)
    et = lst.ty.args[0]
    n = llen(ex, lst)
    a = larrs(ex, lst)[0]
    if et.kind == "int":
        return vint(SUMI(a, n))
    if et.kind == "bool":
        j = z3.Int("j")
        return vint(SUMI(z3.Lambda([j], z3.If(_sel(a, j), 1, 0)), n))
    if et.kind == "fl":
        return vfl(SUMF(a, n))
    raise Unsupported(f"sum over {et}")


_SUMI = z3.RecFunction("SUMI", z3.ArraySort(INT, INT), INT, INT)
_a, _n = z3.Const("a", z3.ArraySort(INT, INT)), z3.Int("n")
z3.RecAddDefinition(_SUMI, [_a, _n], z3.If(_n <= 0, 0, _SUMI(_a, _n - 1) + _a[_n - 1]))
_SUMF = z3.Function("SUMF", z3.ArraySort(INT, FL), INT, FL)


def SUMI(a, n):
    return _SUMI(a, n)


def SUMF(a, n):
    return _SUMF(a, n)


@handler("all", "any")
def _allany(ex, fv_, args, kwargs, fr, node):
    lst = as_list(ex, args[0], fr, node)
    n = llen(ex, lst)
    i = z3.Const(f"i?{next(ex.cnt)}", INT)
    el = litem(ex, lst, i)
    t = ex.truth(el)
    if fv_.name == "all":
        return vbool(z3.ForAll([i], z3.Implies(z3.And(0 <= i, i < n), t)))
    return vbool(z3.Exists([i], z3.And(0 <= i, i < n, t)))


@handler("str")
def _str(ex, fv_, args, kwargs, fr, node):
    return Val(Ty("str"), to_str(ex, args[0]))


@handler("int")
def _int(ex, fv_, args, kwargs, fr, node):
    v = args[0]
    if v.ty.kind == "int":
        return v
    if v.ty.kind == "fl":
        # truncation towards zero of a finite value
        r = smt.fv(v.t)
        fl = z3.ToInt(r)
        return vint(z3.If(r >= 0, fl, z3.If(z3.ToReal(fl) == r, fl, fl + 1)))
    raise Unsupported(f"int() of {v.ty}")


@handler("bool")
def _bool(ex, fv_, args, kwargs, fr, node):
    return vbool(ex.truth(args[0])) if args else vbool(False)


@handler("float")
def _float(ex, fv_, args, kwargs, fr, node):
    return ex.coerce(args[0], "fl")


@handler("round")
def _round(ex, fv_, args, kwargs, fr, node):
    v = ex.coerce(args[0], "fl")
    f = _unint("py_round", FL, INT)
    r = f(v.t)
    ex.assume(z3.Implies(smt.is_fin(v.t), z3.And(z3.ToReal(r) - smt.fv(v.t) <= 0.5, smt.fv(v.t) - z3.ToReal(r) <= 0.5)))
    return vint(r)


@handler("print")
def _print(ex, fv_, args, kwargs, fr, node):
    return vnone()


@handler("list.append")
def _append(ex, fv_, args, kwargs, fr, node):
    lst = fv_.bound
    if is_virtual(lst):
        raise Unsupported("append to a temporary list")
    v = args[0]
    if v.ty.kind == "list" and is_virtual(v):
        v = materialize(ex, v)
    ex.lappend(lst, v)
    return vnone()


@handler("list.extend")
def _extend(ex, fv_, args, kwargs, fr, node):
    lst = fv_.bound
    if is_virtual(lst):
        raise Unsupported("extend of a temporary list")
    other = as_list(ex, args[0], fr, node)
    if not lst.ty.args or lst.ty.args[0].kind == "any":
        lst.ty = Ty("list", args=[other.ty.args[0]])
    cat_ = list_concat(ex, lst, other)
    ex.lset_items(lst, cat_.meta["varrs"])
    ex.set_len(lst, cat_.meta["vlen"])
    return vnone()


@handler("list.index")
def _index(ex, fv_, args, kwargs, fr, node):
    lst = fv_.bound
    x = args[0]
    n = llen(ex, lst)
    k = ex.fresh("index", INT)
    if has_method(x, "__eq__"):
        eq = lambda a, b: ex.truth(ex.call_method(a, "__eq__", [b], {}, fr, node))
    else:
        eq = lambda a, b: eq_values(ex, a, b)
    i = z3.Const(f"i?{next(ex.cnt)}", INT)
    savedpc = len(ex.pc)
    # list.index compares `elem == x` (identity first): first index whose element is x or equals x
    same = lambda a, b: z3.Or(a.t == b.t, eq(a, b)) if a.ty.is_heap else eq(a, b)
    hit_k = same(litem(ex, lst, k), x)
    hit_i = same(litem(ex, lst, i), x)
    del ex.pc[savedpc:]
    ex.assume(z3.And(0 <= k, k < n, hit_k, z3.ForAll([i], z3.Implies(z3.And(0 <= i, i < k), z3.Not(hit_i)))))
    return vint(k)


@handler("list.copy")
def _lcopy(ex, fv_, args, kwargs, fr, node):
    lst = fv_.bound
    return vlist(lst.ty.args[0], llen(ex, lst), larrs(ex, lst))


@handler("dict.keys")
def _dkeys(ex, fv_, args, kwargs, fr, node):
    return dict_keys(ex, fv_.bound)


@handler("dict.values")
def _dvalues(ex, fv_, args, kwargs, fr, node):
    d = fv_.bound
    kt, vt = d.ty.args
    p = dict_parts(ex, d)
    j = z3.Int("j")
    return vlist(vt, p["dlen"][d.t], [z3.Lambda([j], p["dval"][d.t][p["dkey"][d.t][j]])])


@handler("dict.items")
def _ditems(ex, fv_, args, kwargs, fr, node):
    d = fv_.bound
    kt, vt = d.ty.args
    p = dict_parts(ex, d)
    j = z3.Int("j")
    return vlist(Ty("tuple", args=[kt, vt]), p["dlen"][d.t],
                 [p["dkey"][d.t], z3.Lambda([j], p["dval"][d.t][p["dkey"][d.t][j]])])


@handler("dict.get", "rec.get", "objdict.get")
def _dget(ex, fv_, args, kwargs, fr, node):
    d = fv_.bound
    default = args[1] if len(args) > 1 else vnone()
    if d.ty.kind == "dict":
        val, has = dict_get(ex, d, args[0])
        return ex.ite(has, val, default)
    ks = lit_of(args[0].t)
    if ks is None:
        raise Unsupported(".get with a non-literal key")
    if d.ty.kind == "rec":
        fn_ = d.meta.get("fnvals", {}).get(ks)
        if fn_ is not None:
            return fn_
        has = rec_has(ex, d, ks).t
        val = rec_get(ex, d, ks)
        if default.ty.kind == "none" and val.ty.kind == "bool":
            default = vbool(False)       # an option that is absent or None is falsy; only its truth value is used
        return ex.ite(has, val, default)
    # obj.__dict__.get("name", default)
    if ks in d.meta["over"]:
        return d.meta["over"][ks]
    cls = d.meta["cls"]
    ft = spec.field_type(cls, ks)
    if ft is None:
        raise Unsupported(f"__dict__.get({ks!r}): field {cls}.{ks} has no declared type")
    has = ex.rd(d.t, f"hasattr${ks}", "bool").t
    val = ex.rd(d.t, ks, ft)
    if spec.field_type(cls, f"$always${ks}") is not None:
        return val
    if default.ty.kind == "none" and val.ty.kind == "bool":
        default = vbool(False)       # an option that is absent or None is falsy; only its truth value is used
    return ex.ite(has, val, default)


@handler("objdict.copy")
def _odcopy(ex, fv_, args, kwargs, fr, node):
    d = fv_.bound
    return Val(Ty("objdict"), d.t, meta=dict(cls=d.meta["cls"], over=dict(d.meta["over"])))


@handler("str.join")
def _join(ex, fv_, args, kwargs, fr, node):
    sep = fv_.bound
    lst = as_list(ex, args[0], fr, node)
    f = _unint("str_join", smt.STR, z3.ArraySort(INT, smt.STR), INT, smt.STR)
    a = larrs(ex, lst)[0]
    return Val(Ty("str"), f(sep.t, a, llen(ex, lst)))


@handler("str.format")
def _format(ex, fv_, args, kwargs, fr, node):
    fmt = fv_.bound
    parts = [fmt.t] + [to_str(ex, a) for a in args]
    f = _unint("str_format1", smt.STR, smt.STR, smt.STR)
    if len(args) != 1:
        raise Unsupported("format with != 1 argument")
    return Val(Ty("str"), f(fmt.t, to_str(ex, args[0])))


@handler("set")
def _set(ex, fv_, args, kwargs, fr, node):
    if args:
        raise Unsupported("set(iterable)")
    return Val(Ty("ref", cls="$set"), ex.new_obj("set"))


@handler("type")
def _type(ex, fv_, args, kwargs, fr, node):
    v = args[0]
    if v.ty.kind == "ref":
        return Val(Ty("clsof"), v.t)
    raise Unsupported("type() of a non-object")


@handler("clsof_config.__call__")
def _noop(ex, fv_, args, kwargs, fr, node):
    raise Unsupported("class map call")


def construct_ext(ex, cname, args, kwargs, fr, node):
    con = spec.CONTRACTS.get(f"ext.{cname}.__init__") or spec.CONTRACTS.get(f"ext.{cname}")
    if con is not None:
        return ex.apply_contract(con, None, None, args, kwargs, fr, node)
    raise Unsupported(f"construction of external class {cname}")
