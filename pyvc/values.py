"""Types and symbolic values of the executor."""
import re

import z3

from . import smt


class Unsupported(Exception):
    """The function left the supported subset: its obligations are UNDECIDED (exit 2), never a
    violation."""


class Ty:
    __slots__ = ("kind", "cls", "args")

    def __init__(self, kind, cls=None, args=()):
        self.kind = kind      # int bool fl str g oint real | ref | list dict tuple | arr | none | fn cls mod | rec
        self.cls = cls        # for ref: static class name (or None); for arr: array kind
        self.args = tuple(args)

    def __repr__(self):
        if self.kind == "ref":
            return f"{'x' if self.args else ''}ref:{self.cls}"
        if self.kind == "arr":
            return f"arr:{self.cls}"
        if self.args:
            return f"{self.kind}[{','.join(map(repr, self.args))}]"
        return self.kind

    def __eq__(self, o):
        return isinstance(o, Ty) and repr(self) == repr(o)

    def __hash__(self):
        return hash(repr(self))

    @property
    def exact(self):
        return self.kind == "ref" and "exact" in self.args

    @property
    def is_heap(self):
        return self.kind in ("ref", "list", "dict", "arr", "rec")

    def sort(self):
        if self.kind in smt.SORTS:
            return smt.SORTS[self.kind]
        if self.is_heap or self.kind == "none":
            return smt.REF
        if self.kind == "elem":          # one generic coordinate of an array expression (coordinate view)
            return smt.ELEM_SORT[0]
        if self.kind in ("ebounds", "ext"):
            return smt.REF
        raise Unsupported(f"no SMT sort for type {self}")

    def comps(self):
        """component types of a list element (struct-of-arrays for tuples)"""
        return list(self.args) if self.kind == "tuple" else [self]


_TOK = re.compile(r"\s*([A-Za-z_][A-Za-z_0-9.]*(?::[$A-Za-z_0-9]+)?|\[|\]|,)")


def T(s):
    if isinstance(s, Ty):
        return s
    toks = _TOK.findall(s)
    pos = [0]

    def p():
        t = toks[pos[0]]
        pos[0] += 1
        if ":" in t:
            k, c = t.split(":")
            if k == "xref":          # exact dynamic type (no subclass): calls resolve statically
                base = Ty("ref", cls=c, args=("exact",))
            else:
                base = Ty(k, cls=c)
        else:
            base = Ty(t)
        if pos[0] < len(toks) and toks[pos[0]] == "[":
            pos[0] += 1
            args = []
            while toks[pos[0]] != "]":
                if toks[pos[0]] == ",":
                    pos[0] += 1
                    continue
                args.append(p())
            pos[0] += 1
            base = Ty(base.kind, base.cls, args)
        return base

    r = p()
    return r


class Val:
    __slots__ = ("ty", "t", "items", "fn", "env", "bound", "name", "meta")

    def __init__(self, ty, t=None, items=None, fn=None, env=None, bound=None, name=None, meta=None):
        self.ty = ty if isinstance(ty, Ty) else T(ty)
        self.t = t
        self.items = items    # python-level tuple components
        self.fn = fn          # FuncInfo for closures / function values
        self.env = env        # captured environment
        self.bound = bound    # bound self for methods
        self.name = name      # class / module / builtin name
        self.meta = meta or {}

    def __repr__(self):
        if self.ty.kind == "tuple" and self.items is not None:
            return f"Val(tuple{self.items})"
        return f"Val({self.ty}, {self.t if self.t is not None else self.name or self.fn})"


def vint(t):
    return Val(Ty("int"), z3.IntVal(t) if isinstance(t, int) else t)


def vbool(t):
    return Val(Ty("bool"), z3.BoolVal(t) if isinstance(t, bool) else t)


def vfl(t):
    return Val(Ty("fl"), t)


def vstr(t):
    return Val(Ty("str"), smt.str_lit(t) if isinstance(t, str) else t)


def vnone():
    return Val(Ty("none"), z3.IntVal(0))


def vtuple(items):
    return Val(Ty("tuple", args=[i.ty for i in items]), None, items=list(items))


def vref(t, cls=None):
    return Val(Ty("ref", cls=cls), t)
