"""Bounded function-level stand-ins: the REAL functions are run on exhaustively enumerated small inputs (and an
adversarial floating-point grid) and compared with predicates written from the property statements.  Labelled
*bounded* in the evidence and never counted as proved.

    /venv/bin/python replay/bounded.py <PID> [--seed N] [--tier quick|thorough]

prints `WITNESS {...}` and exits 1 at the first violation; otherwise `SUMMARY {...}` and exit 0."""
import argparse
import itertools
import json
import math
import os
import random
import sys
import time
from types import SimpleNamespace

REPO = os.environ.get("PYVC_REPO", "/repo")
sys.path.insert(0, REPO)
import numpy as np  # noqa: E402

from pyhms.core.individual import Individual  # noqa: E402
from pyhms.core.population import Population  # noqa: E402
from pyhms.core.problem import EvalCountingProblem, FunctionProblem  # noqa: E402
from pyhms.demes.single_pop_eas.common import apply_bounds  # noqa: E402
from pyhms.sprout.sprout_candidates import DemeCandidates, DemeFeatures  # noqa: E402
from pyhms.sprout.sprout_filters import DemeLimit, FarEnough, LevelLimit, NBC_FarEnough, SkipSameSprout  # noqa: E402
from pyhms.sprout.sprout_generators import BestPerDeme, NBC_Generator  # noqa: E402
from pyhms.utils.clusterization import NearestBetterClustering  # noqa: E402


class Violation(Exception):
    def __init__(self, pid, what, detail=None):
        self.pid, self.what, self.detail = pid, what, detail or {}


WANT = [None]
ALSO = {"C13": ("C10", "C15", "C12"), "C01": ("C17",)}


def viol(pid, what, detail=None):
    """raise only for the property being checked (a check function serves several properties)"""
    if pid == WANT[0] or pid in ALSO.get(WANT[0], ()):
        raise Violation(pid, what, detail)


COUNT = dict(cases=0, nontrivial=0)
SAMPLES = []


def case(nontrivial=True, sample=None):
    COUNT["cases"] += 1
    if nontrivial:
        COUNT["nontrivial"] += 1
    if sample is not None and len(SAMPLES) < 6:
        SAMPLES.append(sample)


def better(mx, a, b):
    return a > b if mx else a < b


# ---- stub trees made of real individuals / candidates ---------------------------------------------------------------
class StubDeme:
    """duck-typed deme for the filters and generators (they only use these attributes)"""
    _n = 0

    def __init__(self, level, active=True, pop=None, children=None, seed=None, started_at=0, history_len=2):
        StubDeme._n += 1
        self.id = self._id = f"d{StubDeme._n}"
        self.level = self._level = level
        self.is_active = self._active = active
        self._pop = pop or []
        self.children = self._children = children or []
        self._sprout_seed = seed
        self.started_at = started_at
        self._history = [[self._pop]] * history_len
        self._hibernating = False

    @property
    def current_population(self):
        return self._pop

    @property
    def best_current_individual(self):
        return max(self._pop) if self._pop else None

    @property
    def best_individual(self):
        return max(self._pop) if self._pop else None

    @property
    def centroid(self):
        return np.mean([i.genome for i in self._pop], axis=0) if self._pop else None


def mk_problem(mx):
    return FunctionProblem(lambda x: 0.0, np.array([(-10.0, 10.0)] * 2), mx)


def mk_inds(problem, fits, genomes=None):
    return [Individual(np.array(genomes[k] if genomes else [float(k), float(-k)]), problem, float(f)) for k, f in enumerate(fits)]


# ---- C10 / C08 : DemeLimit, LevelLimit ---------------------------------------------------------------------------------
def check_deme_limit(tier):
    vals = [0.0, 1.0, 2.0] if tier == "quick" else [0.0, 1.0, 2.0, 3.0]
    for mx in (False, True):
        p = mk_problem(mx)
        for n in range(0, 5):
            for fits in itertools.product(vals, repeat=n):
                for limit in (1, 2, 3):
                    inds = mk_inds(p, fits)
                    d = StubDeme(0)
                    cands = {d: DemeCandidates(individuals=list(inds), features=DemeFeatures())}
                    out = DemeLimit(limit)(cands, None)
                    kept = out[d].individuals
                    case(n > limit, dict(fn="DemeLimit", maximize=mx, fitness=list(fits), limit=limit) if n > limit else None)
                    if any(not any(k is x for x in inds) for k in kept):
                        viol("C10", "DemeLimit added a candidate", dict(fits=fits, limit=limit))
                    if len(kept) != min(limit, n):
                        viol("C10", "DemeLimit does not keep exactly min(limit, available)", dict(fits=fits, limit=limit, kept=len(kept), maximize=mx))
                    dropped = [x for x in inds if not any(x is k for k in kept)]
                    for x in dropped:
                        for k in kept:
                            if better(mx, x.fitness, k.fitness):
                                viol("C10", "DemeLimit dropped a candidate strictly better than a kept one",
                                                dict(fits=fits, limit=limit, maximize=mx, dropped=x.fitness, kept=k.fitness))


def check_level_limit(tier):
    vals = [0.0, 1.0, 2.0, 3.0]
    rng = random.Random(1)
    for mx in (False, True):
        p = mk_problem(mx)
        shapes = [(1,), (2,), (3,), (1, 1), (2, 1), (1, 2), (2, 2), (1, 1, 1)] if tier == "quick" else \
            [(1,), (2,), (3,), (4,), (1, 1), (2, 1), (1, 2), (2, 2), (3, 1), (1, 1, 1), (2, 1, 1)]
        for shape in shapes:
            n = sum(shape)
            fit_sets = list(itertools.product(vals, repeat=n)) if n <= 3 else [tuple(rng.choice(vals) for _ in range(n)) for _ in range(60)] + \
                [tuple(float(k) for k in perm) for perm in itertools.permutations(range(n))][:24]
            for fits in fit_sets:
                for limit in (1, 2, 3):
                    for n_active in range(0, limit + 1):
                        for n_inactive in (0, 1):
                            parents = []
                            it = iter(fits)
                            allinds = []
                            cands = {}
                            for cnt in shape:
                                d = StubDeme(0)
                                inds = mk_inds(p, [next(it) for _ in range(cnt)])
                                allinds += inds
                                parents.append(d)
                                cands[d] = DemeCandidates(individuals=list(inds), features=DemeFeatures())
                            below = [StubDeme(1, active=True) for _ in range(n_active)] + [StubDeme(1, active=False) for _ in range(n_inactive)]
                            for k_, dd in enumerate(below):
                                dd._hibernating = (k_ % 2 == 0)      # a hibernating deme is still active: it occupies its slot
                            # children of a parent that is not a key (e.g. already stopped) count as well
                            orphan_owner = StubDeme(0, active=False, children=below[:1])
                            tree = SimpleNamespace(levels=[parents + [orphan_owner], below])
                            for k_, dd in enumerate(below[1:]):
                                parents[k_ % len(parents)].children.append(dd)
                            before = {d: list(c.individuals) for d, c in cands.items()}
                            out = LevelLimit(limit)(cands, tree)
                            kept = [k for d in parents for k in out[d].individuals]
                            free = limit - n_active
                            distinct = len(set(fits)) == len(fits)
                            case(n > free, dict(fn="LevelLimit", maximize=mx, per_parent=shape, fitness=list(fits), limit=limit, active_below=n_active)
                                 if n > free and distinct else None)
                            for d in parents:
                                if any(not any(k is x for x in before[d]) for k in out[d].individuals):
                                    viol("C10", "LevelLimit added / moved a candidate", dict(fits=fits))
                            if len(kept) > max(free, 0):
                                viol("C08", "LevelLimit lets through more candidates than there are free slots on the level",
                                                dict(fits=fits, per_parent=shape, limit=limit, active_below=n_active, kept=len(kept), maximize=mx))
                            if distinct and len(kept) != min(max(free, 0), n):
                                viol("C10", "LevelLimit does not fill exactly the free slots although the fitness values are distinct",
                                                dict(fits=fits, per_parent=shape, limit=limit, active_below=n_active, kept=len(kept), maximize=mx))
                            dropped = [x for x in allinds if not any(x is k for k in kept)]
                            for x in dropped:
                                for k in kept:
                                    if better(mx, x.fitness, k.fitness):
                                        viol("C10", "LevelLimit dropped a candidate strictly better (in the problem's direction) than a kept one",
                                                        dict(fits=fits, per_parent=shape, limit=limit, active_below=n_active, maximize=mx,
                                                             dropped=x.fitness, kept=k.fitness))


def check_skip_same(tier):
    p = mk_problem(False)
    pts = [[0.0, 0.0], [1.0, 1.0], [1.0, 1.0 + 1e-12], [2.0, -1.0]]
    for seeds_own in itertools.product(range(len(pts)), repeat=1):
        for seeds_other in ([], [1], [3]):
            for cand_idx in itertools.product(range(len(pts)), repeat=2):
                own = StubDeme(0)
                other = StubDeme(0)
                own.children = own._children = [StubDeme(1, seed=Individual(np.array(pts[k]), p, 1.0)) for k in seeds_own]
                other.children = other._children = [StubDeme(1, seed=Individual(np.array(pts[k]), p, 1.0)) for k in seeds_other]
                inds = [Individual(np.array(pts[k]), p, float(k)) for k in cand_idx]
                cands = {own: DemeCandidates(individuals=list(inds), features=DemeFeatures())}
                tree = SimpleNamespace(levels=[[own, other], own.children + other.children])
                out = SkipSameSprout()(cands, tree)
                kept = out[own].individuals
                case(True, dict(fn="SkipSameSprout", own_seeds=[pts[k] for k in seeds_own], candidates=[pts[k] for k in cand_idx]))
                all_seeds = [c._sprout_seed.genome for c in own.children + other.children]
                for x in inds:
                    same_parent = any(np.all(np.isclose(c._sprout_seed.genome, x.genome)) for c in own.children)
                    differs_all = not any(np.all(np.isclose(s, x.genome)) for s in all_seeds)
                    is_kept = any(x is k for k in kept)
                    if same_parent and is_kept:
                        viol("C10", "SkipSameSprout let through a candidate numerically equal to a seed already sprouted from the same parent",
                                        dict(candidate=x.genome.tolist()))
                    if differs_all and not is_kept:
                        viol("C10", "SkipSameSprout rejected a candidate that differs from every existing seed of the target level",
                                        dict(candidate=x.genome.tolist()))


def check_generators(tier):
    rng = random.Random(3)
    for mx in (False, True):
        p = mk_problem(mx)
        for trial in range(30 if tier == "quick" else 150):
            nlev = rng.choice([2, 3])
            levels = []
            for l in range(nlev):
                lv = []
                for _ in range(rng.choice([1, 2, 3]) if l > 0 else 1):
                    fits = [rng.choice([0.0, 1.0, 2.0, 3.0, 4.0]) for _ in range(rng.choice([4, 6]))]
                    pop = [Individual(np.array([rng.uniform(-5, 5), rng.uniform(-5, 5)]), p, f) for f in fits]
                    lv.append(StubDeme(l, active=rng.random() < 0.7, pop=pop))
                levels.append(lv)
            tree = SimpleNamespace(levels=levels, metaepoch_count=3)
            expected = [d for lv in levels[:-1] for d in lv if d.is_active]
            for gen in (BestPerDeme(), NBC_Generator(2.0, 1.0)):
                out = gen(tree)
                case(len(expected) > 0, dict(fn=type(gen).__name__, maximize=mx, levels=[len(lv) for lv in levels], active_non_leaves=len(expected)))
                if set(map(id, out.keys())) != set(map(id, expected)):
                    viol("C10", f"{type(gen).__name__} does not propose candidates for exactly the active non-leaf demes",
                                    dict(keys=[d.id for d in out], expected=[d.id for d in expected]))
                for d, c in out.items():
                    for x in c.individuals:
                        if not any(x is y for y in d.current_population):
                            viol("C10", f"{type(gen).__name__} proposed a candidate that is not in the deme's current population", dict(deme=d.id))
                    if isinstance(gen, BestPerDeme):
                        if len(c.individuals) != 1 or any(better(mx, y.fitness, c.individuals[0].fitness) for y in d.current_population):
                            viol("C10", "BestPerDeme does not propose exactly the deme's current best", dict(deme=d.id, maximize=mx))


# ---- C09: FarEnough / NBC_FarEnough -----------------------------------------------------------------------------------------
def check_far_enough(tier):
    rng = random.Random(5)
    p = mk_problem(False)
    for trial in range(200 if tier == "quick" else 1000):
        parent = StubDeme(0)
        sibs = []
        for _ in range(rng.choice([0, 1, 2, 3])):
            pop = [Individual(np.array([rng.uniform(-5, 5), rng.uniform(-5, 5)]), p, 1.0) for _ in range(3)]
            sibs.append(StubDeme(1, active=rng.random() < 0.7, pop=pop))
        tree = SimpleNamespace(levels=[[parent], sibs])
        inds = [Individual(np.array([rng.uniform(-5, 5), rng.uniform(-5, 5)]), p, float(k)) for k in range(rng.choice([1, 2, 4]))]
        if sibs and rng.random() < 0.3:
            c = sibs[0].centroid
            inds.append(Individual(np.array([c[0] + 1.0, c[1]]), p, 9.0))      # exactly on the threshold
        thr = rng.choice([0.5, 1.0, 2.0])
        for flt, kind in ((FarEnough(thr, 2), "far"), (NBC_FarEnough(2.0, 2, True), "nbc_active"), (NBC_FarEnough(2.0, 2, False), "nbc_all")):
            mean_d = rng.choice([0.25, 0.5])
            cands = {parent: DemeCandidates(individuals=list(inds), features=DemeFeatures(nbc_mean_distance=mean_d))}
            out = flt(cands, tree)
            kept = out[parent].individuals
            considered = [s for s in sibs if s.is_active] if kind in ("far", "nbc_active") else sibs
            t = thr if kind == "far" else 2.0 * mean_d
            case(bool(considered), dict(fn=type(flt).__name__, threshold=t, siblings=len(sibs)))
            for k in kept:
                if not any(k is x for x in inds):
                    viol("C10", f"{type(flt).__name__} added a candidate")
                for s in considered:
                    dist = float(np.linalg.norm(k.genome - np.mean([i.genome for i in s.current_population], axis=0)))
                    if not dist > t:
                        viol("C09", f"{type(flt).__name__} accepted a sprout that is not strictly farther than the threshold from the "
                                        "current centroid of a deme it is configured to consider", dict(distance=dist, threshold=t, kind=kind))


# ---- C15: nearest-better clustering against its definition ----------------------------------------------------------------------
def nbc_reference(inds, mx, distance_factor, truncation):
    order = sorted(range(len(inds)), key=lambda k: (-inds[k].fitness if mx else inds[k].fitness))     # stable: input order among ties
    keep = order[: int(len(inds) * truncation)]
    if not keep:
        return None
    best = keep[0]
    nbd = {}
    for pos, k in enumerate(keep[1:], start=1):
        if inds[k].fitness == inds[best].fitness:
            betters = [best]
        else:
            betters = [j for j in keep if better(mx, inds[j].fitness, inds[k].fitness)]
        nbd[k] = min(float(np.linalg.norm(inds[k].genome - inds[j].genome)) for j in betters)
    if not nbd:
        return {best}
    mean = float(np.mean(list(nbd.values())))
    return {best} | {k for k, dd in nbd.items() if dd > distance_factor * mean}


def check_nbc(tier):
    rng = random.Random(7)
    n_trials = 150 if tier == "quick" else 1200
    for trial in range(n_trials):
        mx = rng.random() < 0.5
        p = mk_problem(mx)
        n = rng.choice([2, 3, 4, 5, 6, 8, 12, 20] if tier == "quick" else [2, 3, 4, 5, 6, 8, 12, 20, 40, 60])
        dim = rng.choice([1, 2, 3, 8])
        style = rng.choice(["uniform", "clustered", "collinear", "converged"])
        if style == "uniform":
            G = [np.array([rng.uniform(-5, 5) for _ in range(dim)]) for _ in range(n)]
        elif style == "clustered":
            cs = [np.array([rng.uniform(-5, 5) for _ in range(dim)]) for _ in range(3)]
            G = [cs[k % 3] + np.array([rng.gauss(0, 0.1) for _ in range(dim)]) for k in range(n)]
        elif style == "collinear":
            G = [np.array([float(k)] + [0.0] * (dim - 1)) * rng.choice([1.0, 0.37]) + k * 1e-3 for k in range(n)]
        else:
            base = np.array([rng.uniform(-5, 5) for _ in range(dim)])
            G = [base + np.array([rng.uniform(0, 1) * 1e-10 for _ in range(dim)]) + k * 1e-11 for k in range(n)]
        if len({g.tobytes() for g in G}) != n:
            continue
        fits = [rng.choice([0.0, 1.0, 2.0, 3.0]) if rng.random() < 0.4 else rng.uniform(0, 10) for _ in range(n)]
        inds = [Individual(g, p, f) for g, f in zip(G, fits)]
        df, tr = rng.choice([1.0, 2.0, 3.0]), rng.choice([1.0, 0.7, 0.5])
        got = NearestBetterClustering(inds, df, tr).cluster()
        want = nbc_reference(inds, mx, df, tr)
        if want is None:
            continue
        got_idx = {k for k in range(n) if any(inds[k] is g for g in got)}
        uniq_best = sum(1 for f in fits if f == (max(fits) if mx else min(fits))) == 1
        case(n >= 4, dict(fn="NearestBetterClustering", n=n, dim=dim, style=style, maximize=mx, distance_factor=df, truncation=tr))
        if got_idx != want:
            viol("C15", "nearest-better clustering does not return the individuals its definition prescribes",
                            dict(n=n, dim=dim, style=style, maximize=mx, distance_factor=df, truncation=tr, got=sorted(got_idx), want=sorted(want),
                                 fitness=fits, genomes=[g.tolist() for g in G]))
        if uniq_best and len(set(fits)) == n:
            perm = list(range(n))
            rng.shuffle(perm)
            got2 = NearestBetterClustering([inds[k] for k in perm], df, tr).cluster()
            if {k for k in range(n) if any(inds[k] is g for g in got2)} != got_idx:
                viol("C15", "the result depends on the order of the input", dict(n=n, style=style))
            shift = np.array([rng.uniform(-3, 3) for _ in range(dim)])
            sc = rng.choice([0.5, 2.0, 10.0])
            inds3 = [Individual((g + shift) * sc, p, f) for g, f in zip(G, fits)]
            got3 = NearestBetterClustering(inds3, df, tr).cluster()
            idx3 = {k for k in range(n) if any(inds3[k] is g for g in got3)}
            if style != "converged" and idx3 != got_idx and _robust(inds, mx, df, tr):
                viol("C15", "the result changes under translation / uniform scaling of the genomes", dict(n=n, style=style))
            pm = mk_problem(not mx)
            inds4 = [Individual(g, pm, -f) for g, f in zip(G, fits)]
            got4 = NearestBetterClustering(inds4, df, tr).cluster()
            if {k for k in range(n) if any(inds4[k] is g for g in got4)} != got_idx:
                viol("C15", "the result differs between (f, minimise) and (-f, maximise)", dict(n=n, style=style, maximize=mx))


def _robust(inds, mx, df, tr):
    """the cut is not within rounding distance of the threshold (translation/scaling change distances by rounding)"""
    order = sorted(range(len(inds)), key=lambda k: (-inds[k].fitness if mx else inds[k].fitness))
    keep = order[: int(len(inds) * tr)]
    d = []
    for k in keep[1:]:
        bs = [j for j in keep if better(mx, inds[j].fitness, inds[k].fitness)] or [keep[0]]
        d.append(min(float(np.linalg.norm(inds[k].genome - inds[j].genome)) for j in bs))
    if not d:
        return True
    t = df * float(np.mean(d))
    return all(abs(x - t) > 1e-9 * max(1.0, t) for x in d)


# ---- C17 / C01: floating point grid for apply_bounds, crossover and the affine scalings -----------------------------------------------
def check_bounds_fp(tier):
    boxes = [(-0.1, 0.2), (0.0, 1.0), (-20.0, 20.0), (1e-3, 1e3), (-1e-9, 3e-9), (-1e9, 1e9 + 1), (0.1, 0.3)]
    rng = random.Random(11)
    for lo, hi in boxes:
        b = np.array([(lo, hi)])
        r = hi - lo
        xs = [lo, hi, np.nextafter(lo, -np.inf), np.nextafter(hi, np.inf), np.nextafter(lo, np.inf), np.nextafter(hi, -np.inf),
              (lo + hi) / 2, lo - r, hi + r, lo - 2 * r, hi + 2 * r, lo - 7.3 * r, hi + 1234.5 * r, lo + 3 * r, hi - 5 * r]
        xs += [rng.uniform(lo - 5 * r, hi + 5 * r) for _ in range(300 if tier == "quick" else 5000)]
        for method in ("clip", "reflect", "toroidal"):
            for x in xs:
                y = float(apply_bounds(np.array([[x]]), b, method)[0, 0])
                inside = lo <= x <= hi
                case(not inside, dict(fn="apply_bounds", method=method, box=(lo, hi), x=float(x)) if not inside and rng.random() < 0.01 else None)
                if not (lo <= y <= hi):
                    viol("C17", "bound repair returned a point outside the box", dict(method=method, box=(lo, hi), x=float(x), result=y))
                if inside and abs(y - x) > 4 * np.spacing(max(abs(lo), abs(hi))):
                    viol("C17", "bound repair moved a point that was already inside the box", dict(method=method, box=(lo, hi), x=float(x), result=y))
                if not inside:
                    tol = 64 * np.spacing(max(abs(x), abs(lo), abs(hi)))
                    if method == "clip" and y != (lo if x < lo else hi):
                        viol("C17", "clip did not move to the nearest face", dict(box=(lo, hi), x=float(x), result=y))
                    if method == "toroidal":
                        k = round((x - y) / r)
                        if abs((x - y) - k * r) > tol * max(1, abs(k)) and y not in (lo, hi):
                            viol("C17", "toroidal result is not congruent to the input modulo the range", dict(box=(lo, hi), x=float(x), result=y))
                    if method == "reflect":
                        a, c = (y - lo) - (x - lo), (y - lo) + (x - lo)
                        ok = min(abs(a - 2 * r * round(a / (2 * r))), abs(c - 2 * r * round(c / (2 * r)))) <= tol * max(1.0, abs(x - lo) / r)
                        if not ok and y not in (lo, hi):
                            viol("C17", "reflect result is not congruent to +/- the input modulo twice the range", dict(box=(lo, hi), x=float(x), result=y))


def check_operators_in_box(tier):
    """C01 (bounded FP stand-in for the kernels that multiply): crossover of parents on a face, affine scalings"""
    from pyhms.demes.single_pop_eas.sea import ArithmeticCrossover, GaussianMutation, UniformMutation
    from scipy.stats.qmc import LatinHypercube
    rng = random.Random(13)
    for lo, hi in [(-0.1, 0.2), (1e-3, 3.4), (-20.0, 20.0), (0.1, 0.3)]:
        box = np.array([(lo, hi)] * 3)
        fp = FunctionProblem(lambda x: float(np.sum(x)), box, False)
        for trial in range(150 if tier == "quick" else 3000):
            rows = []
            for _ in range(6):
                rows.append([rng.choice([lo, hi, rng.uniform(lo, hi)]) for _ in range(3)])
            pop = Population(np.array(rows), np.zeros(6), fp)
            np.random.seed(trial)
            for op in (ArithmeticCrossover(1.0, False), UniformMutation(box, 0.5), GaussianMutation(0.3, box, 1.0)):
                out = op(pop)
                case(True, dict(fn=type(op).__name__, box=(lo, hi)) if trial == 0 else None)
                bad = (out.genomes < box[:, 0]) | (out.genomes > box[:, 1])
                if np.any(bad):
                    i, j = np.argwhere(bad)[0]
                    viol("C01", f"{type(op).__name__} produced a coordinate outside the box (it would be evaluated there)",
                                    dict(box=(lo, hi), value=float(out.genomes[i, j]), parents=[rows[i][j], rows[i + 1 if i % 2 == 0 and i + 1 < 6 else i - 1][j]]))
            s = LatinHypercube(d=3, seed=trial).random(8)
            g = box[:, 0] + s * (box[:, 1] - box[:, 0])
            if np.any(g < box[:, 0]) or np.any(g > box[:, 1]):
                viol("C01", "LHS/Sobol affine scaling left the box", dict(box=(lo, hi)))


# ---- C12 / C13 / C02: population-level kernels ------------------------------------------------------------------------------------------
def check_population(tier, want):
    from pyhms.demes.single_pop_eas.de import DE, SHADE
    from pyhms.demes.single_pop_eas.sea import SEA, TournamentSelection
    vals = [0.0, 1.0, 2.0]
    for mx in (False, True):
        box = np.array([(-5.0, 5.0)] * 2)
        table = {}

        OFFSET, SCALE_F = [0.0], [1.0]

        def f(x):
            return table.get(np.asarray(x).tobytes(), (OFFSET[0] + SCALE_F[0] * float(np.sum(np.asarray(x) ** 2))) * (-1 if mx else 1))
        fp = EvalCountingProblem(FunctionProblem(f, box, mx))
        for n in (1, 2, 3, 4, 5):
            for fits in itertools.product(vals, repeat=n):
                G = np.array([[float(k), float(-k) / 2] for k in range(n)])
                pop = Population(G.copy(), np.array(fits, dtype=float), fp)
                for k in range(1, n + 2):
                    top = pop.topk(k)
                    case(k < n, None)
                    if want in ("C12", "C13", "C02"):
                        if len(top.fitnesses) != min(k, n):
                            viol("C12", "topk does not return min(k, n) rows", dict(fits=fits, k=k))
                        for g, fv in zip(top.genomes, top.fitnesses):
                            idx = [i for i in range(n) if np.all(G[i] == g)]
                            if not idx or fits[idx[0]] != fv:
                                viol("C02", "topk separated a genome from its fitness", dict(fits=fits, k=k))
                        keptv = sorted(top.fitnesses.tolist())
                        allv = sorted(fits, reverse=mx)[: min(k, n)]
                        if sorted(allv) != keptv:
                            viol("C12" if want != "C13" else "C13", "topk does not keep the best k in the problem's direction", dict(fits=fits, k=k, maximize=mx))
        # engines: elitism / one-to-one replacement / size on random objective tables
        rng = random.Random(17)
        for trial in range(60 if tier == "quick" else 400):
            n = rng.choice([4, 5, 8])
            parents = [Individual(np.array([rng.uniform(-5, 5), rng.uniform(-5, 5)]), fp, None) for _ in range(n)]
            near_ties = trial % 3 == 0        # an objective whose values differ only in the 7th-9th significant digit
            OFFSET[0] = 1000.0 if near_ties else 0.0
            SCALE_F[0] = 1e-7 if near_ties else 1.0
            for ind in parents:
                ind.fitness = f(ind.genome) if (rng.random() < 0.7 or near_ties) else rng.choice([0.0, 1.0])
                table[ind.genome.tobytes()] = ind.fitness
            np.random.seed(trial)
            from pyhms.demes.single_pop_eas.sea import GAStyleSEA, SEAWithCrossover
            for eng in (DE(use_dither=False, crossover_probability=0.9, f=0.8), DE(use_dither=True, crossover_probability=0.5), SHADE(5, n),
                        SEA.create(problem=fp, mutation_std=1.0, k_elites=1),
                        SEAWithCrossover.create(problem=fp, mutation_std=1.0, k_elites=1, p_mutation=0.3, p_crossover=0.9),
                        GAStyleSEA.create(problem=fp, k_elites=1, p_mutation=0.3, p_crossover=0.9)):
                res = eng.run(parents)
                case(True, dict(fn=type(eng).__name__ + ".run", maximize=mx, n=n) if trial == 0 else None)
                if len(res) != n:
                    viol("C12", f"{type(eng).__name__}.run changed the population size", dict(n=n, got=len(res)))
                pa = sorted((i.fitness for i in parents), reverse=mx)
                ra = sorted((i.fitness for i in res), reverse=mx)
                if better(mx, pa[0], ra[0]):
                    viol("C12", f"{type(eng).__name__}.run lost the best fitness", dict(maximize=mx, before=pa[0], after=ra[0]))
                if type(eng).__name__ in ("DE", "SHADE"):
                    for k, (x, y) in enumerate(zip(pa, ra)):
                        if better(mx, x, y):
                            viol("C12", f"{type(eng).__name__}.run: the k-th best fitness got worse", dict(k=k, maximize=mx))
                for ind in res:
                    true = f(ind.genome)
                    if ind.fitness != true and ind.genome.tobytes() not in table:
                        viol("C02", f"{type(eng).__name__}.run returned an individual whose fitness is not the objective value of its genome",
                                        dict(stored=float(ind.fitness), true=float(true)))
                for i, p0 in enumerate(parents):
                    if table.get(p0.genome.tobytes()) != p0.fitness:
                        viol("C02", "an engine changed its parents")
        # twin: SHADE's current-to-p-best mutation on tied fitness values, (f, max) vs (-f, min), same random draws
        from pyhms.demes.single_pop_eas.de import CurrentToPBestMutation
        for trial in range(40):
            n = 20
            fits = np.array([rng.choice([0.0, 0.25, 0.5, 0.75]) for _ in range(n)])
            G = np.array([[rng.uniform(-4, 4), rng.uniform(-4, 4)] for _ in range(n)])
            fmax = FunctionProblem(f, box, True)
            fmin = FunctionProblem(f, box, False)
            ff = np.full((n, 1), 0.5)
            pp = np.full(n, 0.15)
            np.random.seed(trial)
            a = CurrentToPBestMutation()(Population(G.copy(), fits.copy(), fmax), None, ff, pp)
            np.random.seed(trial)
            b = CurrentToPBestMutation()(Population(G.copy(), -fits.copy(), fmin), None, ff, pp)
            case(True, dict(fn="CurrentToPBestMutation", n=n, tied=True) if trial == 0 else None)
            if want == "C13" and not np.array_equal(a.genomes, b.genomes):
                viol("C13", "SHADE's current-to-p-best mutation breeds different mutants on (f, maximize) and (-f, minimize) with the same random draws",
                     dict(tied_fitness_values=sorted(set(fits.tolist())), rows_differing=int(np.sum(np.any(a.genomes != b.genomes, axis=1)))))
        # twin: tournament winners on (f, max) vs (-f, min)
        for trial in range(30):
            n = 6
            fits = np.array([rng.choice([0.0, 1.0, 2.0, 3.0]) for _ in range(n)])
            G = np.array([[float(k), 0.0] for k in range(n)])
            fmax = FunctionProblem(f, box, True)
            fmin = FunctionProblem(f, box, False)
            np.random.seed(trial)
            a = TournamentSelection(2)(Population(G.copy(), fits.copy(), fmax))
            np.random.seed(trial)
            b = TournamentSelection(2)(Population(G.copy(), -fits.copy(), fmin))
            case(True, None)
            if want == "C13" and (not np.array_equal(a.fitnesses, -b.fitnesses)):
                viol("C13", "tournament selection picks different winners on (f, maximize) and (-f, minimize)", dict(fits=fits.tolist()))


# ---- C16 / C03: wrapper stacks -----------------------------------------------------------------------------------------------------
def check_wrappers(tier):
    from pyhms.core.problem import EvalCutoffProblem, PrecisionCutoffProblem, StatsGatheringProblem, get_function_problem
    kinds = ["count", "cutoff", "precision", "stats"]
    box = np.array([(-5.0, 5.0)] * 2)
    vals = [3.0, 1.0, 0.05, 0.0, 7.0, 0.01, 2.0, math.inf, -math.inf]
    depth_max = 3 if tier == "quick" else 4
    for mx in (False, True):
        for depth in range(0, depth_max + 1):
            for stack in itertools.product(kinds, repeat=depth):
                calls = []

                def f(x, _c=calls):
                    _c.append(1)
                    return vals[(len(_c) - 1) % len(vals)] * (-1 if mx else 1)
                base = FunctionProblem(f, box, mx)
                p = base
                layers = []
                for k in stack:            # innermost first
                    if k == "count":
                        p = EvalCountingProblem(p)
                    elif k == "cutoff":
                        p = EvalCutoffProblem(p, 3)
                    elif k == "precision":
                        p = PrecisionCutoffProblem(p, 0.0, 0.1)
                    else:
                        p = StatsGatheringProblem(p)
                    layers.append((k, p))
                case(depth >= 2, dict(fn="wrapper stack", stack=list(stack), maximize=mx) if depth == 3 and len(SAMPLES) < 6 else None)
                if get_function_problem(p) is not base or p.maximize != mx or p.bounds is not box:
                    viol("C16", "a wrapper stack does not expose the innermost problem's bounds / direction", dict(stack=stack))
                if p.worse_than(1.0, 2.0) != (not mx if False else (1.0 < 2.0) == mx):
                    viol("C16", "worse_than through a wrapper stack is not the innermost problem's comparison", dict(stack=stack, maximize=mx))
                sentinel = -math.inf if mx else math.inf
                n_calls = 8
                forwarded_before = {id(w): 0 for _, w in layers}
                first_hit = {}
                for c in range(1, n_calls + 1):
                    before = len(calls)
                    # which layers will see this call: everything above (and including) the outermost exhausted cutoff refuses
                    r = p.evaluate(np.array([0.0, 0.0]))
                    invoked = len(calls) - before
                    refused = False
                    reached = True
                    for k, w in reversed(layers):          # outermost first
                        if not reached:
                            break
                        if k == "cutoff" and forwarded_before[id(w)] >= 3:
                            refused = True
                            reached = False
                            break
                        forwarded_before[id(w)] += 1
                    if not refused:
                        true_val = vals[(len(calls) - 1) % len(vals)] * (-1 if mx else 1)
                        if invoked != 1 or r != true_val:
                            viol("C16", "evaluate through a wrapper stack did not return exactly the wrapped objective's value", dict(stack=stack, call=c, got=r))
                    else:
                        if invoked != 0 or r != sentinel:
                            viol("C16", "an exhausted cutoff wrapper invoked the objective or did not return the worst value for the direction",
                                 dict(stack=stack, call=c, got=r, maximize=mx))
                    for k, w in layers:
                        if k in ("count", "cutoff", "precision", "stats") and hasattr(w, "n_evaluations"):
                            if w.n_evaluations != forwarded_before[id(w)]:
                                for pid_ in ("C16", "C03"):          # a law of the wrapper (C16) and an inexact evaluation count (C03)
                                    viol(pid_, "a counting wrapper's count differs from the number of evaluate calls it forwarded",
                                         dict(stack=stack, layer=k, call=c, count=w.n_evaluations, forwarded=forwarded_before[id(w)], maximize=mx))
                        if k == "precision":
                            if w.hit_precision and id(w) not in first_hit:
                                first_hit[id(w)] = forwarded_before[id(w)]
                            if id(w) in first_hit and (not w.hit_precision or w.ETA != first_hit[id(w)]):
                                viol("C16", "precision wrapper: ETA is not the sticky 1-based index of the first hit", dict(stack=stack, ETA=w.ETA, first=first_hit[id(w)]))
                if len(calls) > 3 and "cutoff" in stack:
                    viol("C03", "a cutoff wrapper with cutoff N let the objective be invoked more than N times", dict(stack=stack, calls=len(calls)))


CHECKS = {
    "C08": [check_level_limit],
    "C09": [check_far_enough],
    "C10": [check_deme_limit, check_level_limit, check_skip_same, check_generators, check_far_enough],
    "C15": [check_nbc],
    "C17": [check_bounds_fp],
    "C01": [check_bounds_fp, check_operators_in_box],
    "C12": [lambda t: check_population(t, "C12")],
    "C13": [lambda t: check_population(t, "C13"), check_deme_limit, check_level_limit, check_nbc],
    "C02": [lambda t: check_population(t, "C02")],
    "C16": [check_wrappers],
    "C03": [check_wrappers],
}


def main():
    ap = argparse.ArgumentParser()
    ap.add_argument("pid")
    ap.add_argument("--seed", type=int, default=0)
    ap.add_argument("--tier", default="quick")
    ap.add_argument("--ignore", default="")
    a = ap.parse_args()
    ignore = [x for x in a.ignore.split(",") if x]
    WANT[0] = a.pid
    t0 = time.time()
    known = []
    for fn in CHECKS.get(a.pid, []):
        try:
            fn(a.tier)
        except Violation as v:
            if True:
                w = dict(property=a.pid, what=v.what, detail=v.detail, driver="replay/bounded.py", check=getattr(fn, "__name__", "population"))
                if any(n in v.what for n in ignore):
                    known.append(v.what)
                    continue
                print("WITNESS " + json.dumps(w, default=str))
                sys.exit(1)
    print("SUMMARY " + json.dumps(dict(property=a.pid, cases=COUNT["cases"], nontrivial=COUNT["nontrivial"], seconds=round(time.time() - t0, 1),
                                       samples=SAMPLES, known_hits=known), default=str))


if __name__ == "__main__":
    main()
