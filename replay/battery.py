"""Scenario battery: runs the REAL pyhms code (CPython, /venv) on a catalogue of small configurations under run-time
monitors written from the property statements.  Used (1) to replay failed proof obligations - a firing monitor is a
concrete failing input - and (2) as the labelled *bounded* stand-in for clauses the verifier does not reach.

    /venv/bin/python replay/battery.py <PID> [--seed N] [--tier quick|thorough] [--obligation NAME] [--json]

prints `WITNESS {...}` and exits 1 at the first violation of <PID>; exits 0 otherwise (summary on the last line)."""
import argparse
import copy
import itertools
import json
import math
import os
import random
import sys
import time
import traceback

REPO = os.environ.get("PYVC_REPO", "/repo")
sys.path.insert(0, REPO)
import numpy as np  # noqa: E402

import pyhms  # noqa: E402
from pyhms.config import (CMALevelConfig, DELevelConfig, EALevelConfig, LHSLevelConfig, LocalOptimizationConfig,  # noqa: E402
                          SHADELevelConfig, SobolLevelConfig, TreeConfig)
from pyhms.core.problem import EvalCutoffProblem, FunctionProblem, get_function_problem  # noqa: E402
from pyhms.demes.single_pop_eas.sea import MWEA, SEA, GAStyleSEA, SEAWithAdaptiveMutation, SEAWithCrossover  # noqa: E402
from pyhms.sprout import get_NBC_sprout, get_simple_sprout  # noqa: E402
from pyhms.stop_conditions import (AllChildrenStopped, AllStopped, DontRun, DontStop, FitnessEvalLimitReached, FitnessSteadiness,  # noqa: E402
                                   MetaepochLimit, NoActiveNonrootDemes, RootStopped, SingularProblemEvalLimitReached)
from pyhms.tree import DemeTree  # noqa: E402


class Violation(Exception):
    def __init__(self, pid, what, detail=None):
        self.pid, self.what, self.detail = pid, what, detail or {}


# ---- objectives -------------------------------------------------------------------------------------------------
def sphere(x):
    return float(np.sum(np.asarray(x) ** 2))


def funnels(x):
    x = np.asarray(x)
    d = len(x)
    cs = [np.full(d, 0.5), np.full(d, -0.5), np.concatenate([[0.5], np.full(d - 1, -0.5)])]
    return float(min(np.sum((x - c * SCALE[0]) ** 2) for c in cs))


def plateau(x):
    return float(np.floor(np.sum(np.abs(np.asarray(x)))))


SCALE = [1.0]
def offset(x):
    return 1000.0 + 1e-4 * float(np.sum(np.asarray(x) ** 2))


OBJECTIVES = {"sphere": sphere, "funnels": funnels, "plateau": plateau, "offset": offset}
BOXES = {"sym2": np.array([(-20.0, 20.0)] * 2), "dec3": np.array([(-0.1, 0.2)] * 3), "asym2": np.array([(1e-3, 10.0), (-3.0, 0.5)])}


class Objective:
    """the user's objective, instrumented: counts invocations, records every point and value"""

    def __init__(self, name, maximize, box):
        self.f = OBJECTIVES[name]
        self.sign = -1.0 if maximize else 1.0
        self.box = box
        self.calls = 0
        self.values = []
        self.outside = []

    def __call__(self, x):
        self.calls += 1
        x = np.asarray(x, dtype=float)
        if np.any(x < self.box[:, 0]) or np.any(x > self.box[:, 1]):
            self.outside.append(x.copy())
        v = self.sign * self.f(x)
        self.values.append(v)
        return v


# ---- scenarios ----------------------------------------------------------------------------------------------------
def make_level(kind, problem, lsc, seed_rng, generations, p_mutation=None):
    if kind in ("sea", "seax", "ga", "adaptive", "mwea"):
        cls = {"sea": SEA, "seax": SEAWithCrossover, "ga": GAStyleSEA, "adaptive": SEAWithAdaptiveMutation, "mwea": MWEA}[kind]
        kw = dict(mutation_std=1.0, p_mutation=(p_mutation if p_mutation is not None else seed_rng.choice([1.0, 0.5])))
        if kind == "adaptive":
            kw["mutation_std_step"] = 0.1
        if kind == "mwea":
            kw.update(election_group_size=6, k_elites=3)
        return EALevelConfig(ea_class=cls, generations=generations, problem=problem, pop_size=(12 if kind == "mwea" else seed_rng.choice([6, 12])), lsc=lsc, **kw)
    if kind in ("de", "ded"):
        return DELevelConfig(generations=generations, problem=problem, pop_size=seed_rng.choice([6, 12]), dither=(kind == "ded"), lsc=lsc)
    if kind == "shade":
        return SHADELevelConfig(generations=generations, problem=problem, pop_size=seed_rng.choice([8, 12]), memory_size=5, lsc=lsc)
    if kind == "cma":
        return CMALevelConfig(generations=generations, problem=problem, sigma0=seed_rng.choice([None, 0.5]), lsc=lsc)
    if kind == "cmastd":
        return CMALevelConfig(generations=generations, problem=problem, sigma0=None, lsc=lsc, set_stds=True)
    if kind == "local":
        return LocalOptimizationConfig(problem=problem, lsc=lsc, maxiter=10)
    if kind == "lhs":
        return LHSLevelConfig(problem=problem, lsc=lsc, pop_size=8)
    if kind == "sobol":
        return SobolLevelConfig(problem=problem, lsc=lsc, pop_size=8)
    raise KeyError(kind)


ROOTS = ["sea", "seax", "ga", "adaptive", "mwea", "de", "ded", "shade", "lhs", "sobol"]
LEAVES = ["cma", "cmastd", "local", "sea", "de", "shade"]
MIDS = ["sea", "de", "shade"]


HANDCRAFTED = [
    dict(kinds=["sea", "de", "cma"], objective="funnels", box="sym2", maximize=False, generations=2, leaf_generations=2, sprout="simple",
         level_limit=3, gsc="metaepoch", gsc_n=22, lsc="metaepoch", hibernation=True, wrap="none"),
    dict(kinds=["de", "sea", "cma"], objective="funnels", box="sym2", maximize=False, generations=1, leaf_generations=2, sprout="nbc",
         level_limit=2, gsc="metaepoch", gsc_n=18, lsc="metaepoch", hibernation=True, wrap="counting"),
    dict(kinds=["shade", "cma"], objective="plateau", box="sym2", maximize=True, generations=3, leaf_generations=2, sprout="nbc",
         level_limit=2, gsc="metaepoch", gsc_n=6, lsc="dontstop", hibernation=False, wrap="none"),
    dict(kinds=["sea", "cma"], objective="sphere", box="asym2", maximize=False, generations=1, leaf_generations=4, sprout="nbc",
         level_limit=3, gsc="evals", gsc_n=5, lsc="metaepoch", hibernation=False, wrap="cutoff"),
    dict(kinds=["shade", "de", "local"], objective="plateau", box="dec3", maximize=True, generations=2, leaf_generations=2, sprout="nbc_multi",
         level_limit=2, gsc="metaepoch", gsc_n=8, lsc="metaepoch", hibernation=False, wrap="counting"),
    dict(kinds=["seax", "de"], objective="funnels", box="sym2", maximize=False, generations=2, leaf_generations=3, sprout="nbc",
         level_limit=3, gsc="evals", gsc_n=4, lsc="dontstop", hibernation=False, wrap="none", p_mutation=0.4),
    dict(kinds=["ga", "de"], objective="sphere", box="asym2", maximize=True, generations=1, leaf_generations=3, sprout="simple",
         level_limit=2, gsc="evals", gsc_n=3, lsc="dontstop", hibernation=False, wrap="none", p_mutation=0.4),
    dict(kinds=["de", "de"], objective="funnels", box="sym2", maximize=False, generations=3, leaf_generations=3, sprout="nbc",
         level_limit=3, gsc="evals_w", gsc_n=4, lsc="dontstop", hibernation=False, wrap="none"),
]


def scenarios(seed, tier, want=None):
    rng = random.Random(seed)
    out = []
    for k, h in enumerate(HANDCRAFTED):
        out.append(dict(h, id=100 + k, seed=1000 * seed + 7 + k))
    # evaluation budgets that end inside a leaf deme's metaepoch (the last generation before the stop must be kept: C04, C05)
    for k in range((40 if want in ("C04", "C05", "C03") else 8) if tier == "quick" else 120):
        out.append(dict(kinds=[rng.choice(["sea", "de"]), rng.choice(["de", "shade", "sea"])], objective="funnels", box="sym2", maximize=rng.random() < 0.3,
                        generations=2, leaf_generations=3, sprout="nbc", level_limit=3, gsc="evals", gsc_n=rng.choice([2, 3, 4, 5]),
                        evals_extra=rng.randrange(0, 60), lsc="dontstop", hibernation=False, wrap="none", id=200 + k, seed=rng.randrange(10 ** 6)))
    n = 16 if tier == "quick" else 60
    for i in range(n):
        nlev = rng.choice([1, 2, 2, 2, 3, 3])
        kinds = [rng.choice(ROOTS)]
        if nlev == 3:
            kinds.append(rng.choice(MIDS))
        if nlev >= 2:
            kinds.append(rng.choice(LEAVES))
        if i < len(ROOTS):            # make sure every root engine appears
            kinds[0] = ROOTS[i]
        out.append(dict(
            id=i, kinds=kinds, objective=rng.choice(["sphere", "funnels", "funnels", "plateau", "offset"]), box=rng.choice(list(BOXES)),
            maximize=rng.random() < 0.4, generations=rng.choice([1, 2, 3]), leaf_generations=rng.choice([2, 4]),
            sprout=rng.choice(["simple", "nbc", "nbc", "nbc_multi"]), level_limit=rng.choice([1, 2, 3]),
            gsc=rng.choice(["metaepoch", "metaepoch", "evals", "evals_w", "allstopped", "rootstopped", "nonroot"]),
            gsc_n=rng.choice([3, 5, 7]), lsc=rng.choice(["dontstop", "metaepoch", "metaepoch", "children", "steady"]),
            hibernation=rng.random() < 0.4, seed=rng.randrange(10 ** 6), wrap=rng.choice(["none", "none", "counting", "cutoff"])))
    return out


def build(sc, seed_override=None):
    box = BOXES[sc["box"]]
    SCALE[0] = float(np.min(box[:, 1] - box[:, 0])) / 2
    obj = Objective(sc["objective"], sc["maximize"], box)
    fp = FunctionProblem(obj, box, sc["maximize"])
    level_problem = fp
    if sc.get("wrap") == "counting":            # one counting wrapper shared by all levels (as minimize() shares its cutoff wrapper)
        from pyhms.core.problem import EvalCountingProblem
        level_problem = EvalCountingProblem(fp)
    elif sc.get("wrap") == "cutoff":
        level_problem = EvalCutoffProblem(fp, 10 ** 9)
    rng = random.Random(sc["seed"])
    levels = []
    for li, kind in enumerate(sc["kinds"]):
        leaf = li == len(sc["kinds"]) - 1 and li > 0
        if sc["lsc"] == "metaepoch":
            lsc = MetaepochLimit(rng.choice([2, 3, 4])) if li > 0 else DontStop()
        elif sc["lsc"] == "children" and not leaf and li > 0:
            lsc = AllChildrenStopped()
        elif sc["lsc"] == "steady" and li > 0:
            lsc = FitnessSteadiness(max_deviation=1e-2, n_metaepochs=2)
        else:
            lsc = DontStop()
        levels.append(make_level(kind, level_problem, lsc, rng, sc["leaf_generations"] if leaf else sc["generations"], sc.get("p_mutation")))
    far = float(np.min(box[:, 1] - box[:, 0])) / 20
    if sc["sprout"] == "simple":
        sprout = get_simple_sprout(far, level_limit=sc["level_limit"])
    elif sc["sprout"] == "nbc_multi":
        # a user-composed mechanism: several sprouts per parent and round, a larger level limit
        from pyhms.sprout.sprout_filters import DemeLimit, LevelLimit, NBC_FarEnough, SkipSameSprout
        from pyhms.sprout.sprout_generators import NBC_Generator
        from pyhms.sprout.sprout_mechanisms import SproutMechanism
        sc["level_limit"] = sc["level_limit"] + 2
        sprout = SproutMechanism(NBC_Generator(1.2, 1.0), [NBC_FarEnough(0.5, 2), DemeLimit(3)], [LevelLimit(sc["level_limit"]), SkipSameSprout()])
    else:
        sprout = get_NBC_sprout(level_limit=sc["level_limit"], gen_dist_factor=1.5, fil_dist_factor=1.0, trunc_factor=0.8)
    n = sc["gsc_n"]
    gsc = {"metaepoch": lambda: MetaepochLimit(n), "evals": lambda: SingularProblemEvalLimitReached(60 * n + sc.get("evals_extra", 0)),
           "evals_w": lambda: FitnessEvalLimitReached(60 * n, weights=[1.0] * len(levels)),
           "allstopped": lambda: AllStopped(), "rootstopped": lambda: RootStopped(), "nonroot": lambda: NoActiveNonrootDemes(2)}[sc["gsc"]]()
    if sc["gsc"] in ("allstopped", "rootstopped", "nonroot"):
        # make sure the run ends: every deme stops after a few metaepochs
        for lv_ in levels:
            lv_.lsc = MetaepochLimit(n)
    options = {"hibernation": sc["hibernation"], "random_seed": sc["seed"] if seed_override is None else seed_override}
    cfg = TreeConfig(levels, gsc, sprout, options=options)
    return cfg, obj, fp


# ---- observation helpers -------------------------------------------------------------------------------------------
def all_demes(tree):
    return [d for lv in tree._levels for d in lv]


def deme_snapshot(d):
    return dict(id=d._id, level=d._level, active=d._active, hib=d._hibernating, started=d._started_at,
                hist=[[[(ind.genome.tobytes(), float(ind.fitness)) for ind in gen] for gen in me] for me in d._history],
                nev=d.n_evaluations, cls=type(d).__name__, nchildren=len(d._children))


def tree_snapshot(tree):
    return dict(count=tree.metaepoch_count, demes={d._id: deme_snapshot(d) for d in all_demes(tree)},
                order=[[d._id for d in lv] for lv in tree._levels])


def better(maximize, a, b):
    return a > b if maximize else a < b


# ---- monitors ------------------------------------------------------------------------------------------------------
def check_structure(tree, sc):
    lv = tree._levels
    if len(lv) != len(tree.config.levels):
        raise Violation("C07", "number of levels differs from the configuration")
    if len(lv[0]) != 1 or lv[0][0]._id != "root":
        raise Violation("C07", "level 0 is not exactly one deme with id 'root'", dict(ids=[d._id for d in lv[0]]))
    ids = [d._id for d in all_demes(tree)]
    if len(set(ids)) != len(ids):
        raise Violation("C07", "deme ids are not unique", dict(ids=ids))
    table = pyhms.demes.initialize.CONFIG_CLASS_TO_DEME_CLASS
    for l, level in enumerate(lv):
        for d in level:
            if d._level != l:
                raise Violation("C07", "deme stored on a level different from its own", dict(id=d._id, level=d._level, stored=l))
            if type(d) is not table[type(tree.config.levels[l])]:
                raise Violation("C07", "deme class is not the engine configured for its level", dict(id=d._id, cls=type(d).__name__))
            if not (0 <= d._started_at <= tree.metaepoch_count):
                raise Violation("C07", "start metaepoch out of range", dict(id=d._id, started=d._started_at, now=tree.metaepoch_count))
            if l == len(lv) - 1 and d._children:
                raise Violation("C07", "a leaf deme has children", dict(id=d._id))
            parents = [p for p in (lv[l - 1] if l > 0 else []) if any(c is d for c in p._children)]
            if l > 0 and len(parents) != 1:
                raise Violation("C07", "non-root deme does not have exactly one parent one level above", dict(id=d._id, parents=len(parents)))
            if l > 0:
                p = parents[0]
                if sum(1 for c in p._children if c is d) != 1:
                    raise Violation("C07", "deme listed more than once by its parent", dict(id=d._id))
                if d._started_at < p._started_at:
                    raise Violation("C07", "deme started before its parent", dict(id=d._id))
                if d._sprout_seed is None:
                    raise Violation("C07", "non-root deme without sprout seed", dict(id=d._id))
            for c in d._children:
                if not any(c is x for x in lv[l + 1]) if l + 1 < len(lv) else True:
                    raise Violation("C07", "child not stored on the next level", dict(id=d._id))
    for l in range(1, len(lv)):
        act = sum(1 for d in lv[l] if d._active)
        if act > sc["level_limit"]:
            raise Violation("C08", "more active demes on a level than the level limit", dict(level=l, active=act, limit=sc["level_limit"]))


def check_individuals(tree, obj, fp, sc):
    box = obj.box
    sentinel = -math.inf if sc["maximize"] else math.inf
    for d in all_demes(tree):
        for me in d._history:
            for gen in me:
                for ind in gen:
                    g = np.asarray(ind.genome, dtype=float)
                    if np.any(g < box[:, 0]) or np.any(g > box[:, 1]):
                        raise Violation("C01", "stored genome outside the box", dict(deme=d._id, genome=g.tolist()))
                    true = obj.sign * obj.f(g)
                    if not (ind.fitness == true or ind.fitness == sentinel):
                        raise Violation("C02", "stored individual does not carry the objective value of its genome",
                                        dict(deme=d._id, genome=g.tolist(), stored=float(ind.fitness), true=true, cls=type(d).__name__))
        if d._sprout_seed is not None:
            g = np.asarray(d._sprout_seed.genome, dtype=float)
            if np.any(g < box[:, 0]) or np.any(g > box[:, 1]):
                raise Violation("C01", "sprout seed outside the box", dict(deme=d._id))
    if obj.outside:
        raise Violation("C01", "objective invoked outside the box", dict(point=obj.outside[0].tolist(), box=box.tolist()))


def check_counts(tree, obj, where):
    total = sum(d.n_evaluations for d in all_demes(tree))
    if tree.n_evaluations != total:
        raise Violation("C03", "tree total differs from the sum over its demes", dict(tree=tree.n_evaluations, sum=total, where=where))
    if total != obj.calls:
        raise Violation("C03", "reported evaluation count differs from the number of objective invocations",
                        dict(reported=total, invoked=obj.calls, where=where,
                             per_deme={d._id: (type(d).__name__, d.n_evaluations) for d in all_demes(tree)}))


def check_best(tree, sc, state):
    inds = [ind for d in all_demes(tree) for me in d._history for gen in me for ind in gen]
    if not inds:
        return
    b = tree.best_individual
    if not any(b is x for x in inds):
        raise Violation("C04", "tree best is not one of the individuals kept in the histories")
    for x in inds:
        if better(sc["maximize"], x.fitness, b.fitness):
            raise Violation("C04", "an individual in a history is better than the reported tree best", dict(best=float(b.fitness), other=float(x.fitness)))
    for d in all_demes(tree):
        mine = [ind for me in d._history for gen in me for ind in gen]
        db = d.best_individual
        if mine and (not any(db is x for x in mine) or any(better(sc["maximize"], x.fitness, db.fitness) for x in mine)):
            raise Violation("C04", "deme best is not the best of its own history", dict(deme=d._id))
    if state.get("best") is not None and better(sc["maximize"], state["best"], b.fitness):
        raise Violation("C04", "reported best got worse", dict(before=state["best"], now=float(b.fitness)))
    state["best"] = float(b.fitness)


def check_generations(tree, sc, obj):
    """C11 / C12 over consecutive generation pairs of every deme"""
    for d in all_demes(tree):
        cls = type(d).__name__
        gens = [gen for me in d._history for gen in me]
        if cls in ("EADeme", "DEDeme", "SHADEDeme"):
            sizes = {len(g) for g in gens}
            if len(sizes) != 1 or next(iter(sizes)) != d._pop_size:
                raise Violation("C12", "generation size differs from the configured population size", dict(deme=d._id, sizes=sorted(sizes)))
        if cls == "CMADeme" and len({len(g) for g in gens}) != 1:
            raise Violation("C12", "CMA-ES generations of different sizes", dict(deme=d._id))
        elit = cls in ("DEDeme", "SHADEDeme") or (cls == "EADeme" and type(d._ea).__name__ != "MWEA")
        for a, b in zip(gens, gens[1:]):
            if cls in ("EADeme", "DEDeme", "SHADEDeme"):
                prev = {(i.genome.tobytes(), float(i.fitness)) for i in a}
                if elit:
                    ba = max(i.fitness for i in a) if sc["maximize"] else min(i.fitness for i in a)
                    bb = max(i.fitness for i in b) if sc["maximize"] else min(i.fitness for i in b)
                    if better(sc["maximize"], ba, bb):
                        raise Violation("C12", "best fitness of an elitist deme got worse from one generation to the next",
                                        dict(deme=d._id, cls=cls, before=float(ba), after=float(bb)))
                if cls in ("DEDeme", "SHADEDeme"):
                    sa = sorted((i.fitness for i in a), reverse=sc["maximize"])
                    sb = sorted((i.fitness for i in b), reverse=sc["maximize"])
                    for k, (x, y) in enumerate(zip(sa, sb)):
                        if better(sc["maximize"], x, y):
                            raise Violation("C12", "k-th best fitness got worse in a one-to-one replacement engine", dict(deme=d._id, k=k))
                # C11: every individual of b is in a (genome+fitness) or was evaluated after a was complete
                first, last = STATE.get("first_eval", {}), STATE["last_eval"]
                keys_a = [np.asarray(i.genome, dtype=float).tobytes() for i in a]
                if any(k_ not in first for k_ in keys_a):
                    continue
                # a cannot have been complete before the genome of each of its members had been evaluated for the first time
                done_lb = max(first[k_] for k_ in keys_a)
                for ind in b:
                    key = (ind.genome.tobytes(), float(ind.fitness))
                    kb = np.asarray(ind.genome, dtype=float).tobytes()
                    if key in prev or kb not in last:
                        continue
                    if last[kb] <= done_lb and kb not in keys_a:
                        raise Violation("C11", "an individual is neither from the preceding generation nor evaluated after it was completed",
                                        dict(deme=d._id, cls=cls, last_evaluated_at_call=last[kb], preceding_generation_not_complete_before_call=done_lb))


def mark_generations(tree, obj):
    born = STATE["born"]
    for d in all_demes(tree):
        for me in d._history:
            for gen in me:
                STATE["gen_done"].setdefault(id(gen), obj.calls)
                for ind in gen:
                    if id(ind) not in born:
                        born[id(ind)] = STATE["last_eval"].get(np.asarray(ind.genome, dtype=float).tobytes(), -1)
                        STATE.setdefault("keep", []).append(ind)


def check_centroids(tree):
    for d in all_demes(tree):
        cur = d._history[-1][-1]
        if not cur:
            continue
        m = np.mean([i.genome for i in cur], axis=0)
        c = d.centroid
        if c is None or not np.allclose(c, m, rtol=1e-12, atol=1e-12):
            raise Violation("C09", "reported centroid differs from the mean of the current population",
                            dict(deme=d._id, cls=type(d).__name__, centroid=None if c is None else np.asarray(c).tolist(), mean=m.tolist()))


STATE = dict(born={}, last_eval={}, gen_done={}, evaluated_after={})


def run_scenario(sc, want):
    """runs one scenario under the monitors; raises Violation"""
    np.random.seed(12345 + sc["id"])      # prior state of the global generators must not matter
    random.seed(54321 + sc["id"])
    cfg, obj, fp = build(sc)
    STATE.update(born={}, last_eval={}, gen_done={}, evaluated_after={}, first_eval={})
    orig_call = Objective.__call__

    def counting_call(self, x):
        v = orig_call(self, x)
        k_ = np.asarray(x, dtype=float).tobytes()
        STATE["last_eval"][k_] = self.calls
        STATE.setdefault("first_eval", {}).setdefault(k_, self.calls)
        return v
    Objective.__call__ = counting_call
    state = dict(best=None, gsc_true=False, sprouted_after=False, steps=0, snaps=[])
    gsc = cfg.gsc
    gcls = type(gsc)
    orig_gsc = gcls.__call__
    tree_box = {}

    def watched(self_, t):
        r = orig_gsc(self_, t)
        if self_ is gsc and isinstance(t, DemeTree):
            # every generation list that exists now is complete: remember the invocation count
            mark_generations(t, obj)
            try:
                check_structure(t, sc) if want in ("C07", "C08") else None
                if want == "C03" and not state.get("refused"):
                    check_counts(t, obj, "consultation")
            except Violation:
                raise
            if r and not state["gsc_true"]:
                state["gsc_true"] = True
                state["at_true"] = {d._id: sum(len(me) for me in d._history) for d in all_demes(t)}
                state["calls_at_true"] = obj.calls
                state["demes_at_true"] = len(all_demes(t))
        return r
    gcls.__call__ = watched
    try:
        tree = DemeTree(cfg)
        tree_box["t"] = tree
        mark_generations(tree, obj)
        limit = 60
        while not tree._gsc(tree):
            before = tree_snapshot(tree)
            state["calls_before"] = obj.calls
            tree.run_step()
            mark_generations(tree, obj)
            state["steps"] += 1
            after = tree_snapshot(tree)
            boundary_checks(tree, sc, obj, fp, state, before, after, want)
            if want == "C18" and any(d["active"] for d in before["demes"].values()) and obj.calls == state.get("calls_before", -1):
                raise Violation("C18", "a metaepoch passed without a single objective evaluation although a deme is active and the stop "
                                "condition is false", dict(metaepoch=tree.metaepoch_count, gsc=sc["gsc"], sprout=sc["sprout"],
                                                           hibernation=sc["hibernation"], active=[k for k, d in after["demes"].items() if d["active"]],
                                                           hibernating=[k for k, d in after["demes"].items() if d["hib"]]))
            if state["steps"] > limit:
                break
        final_checks(tree, sc, obj, fp, state, want)
        return tree, obj
    finally:
        gcls.__call__ = orig_gsc
        Objective.__call__ = orig_call


def boundary_checks(tree, sc, obj, fp, state, before, after, want):
    if want in ("C07", "C08"):
        check_structure(tree, sc)
    if want in ("C01", "C02"):
        check_individuals(tree, obj, fp, sc)
    if want == "C03":
        check_counts(tree, obj, "metaepoch boundary")
    if want == "C04":
        check_best(tree, sc, state)
    if want in ("C11", "C12"):
        check_generations(tree, sc, obj)
    if want == "C09":
        check_centroids(tree)
    if want == "C05":
        if tree.metaepoch_count != state["steps"]:
            raise Violation("C05", "metaepoch counter differs from the number of metaepochs performed", dict(counter=tree.metaepoch_count, steps=state["steps"]))
    if want == "C02":
        # history immutability: everything recorded before is still there, unchanged
        for did, d0 in before["demes"].items():
            d1 = after["demes"][did]
            for m, me in enumerate(d0["hist"]):
                if d1["hist"][m] != me:
                    raise Violation("C02", "a recorded generation changed after it was recorded", dict(deme=did, metaepoch_entry=m))
    if want in ("C06", "C18"):
        hib_on = bool(tree.config.options.get("hibernation"))
        for did, d0 in before["demes"].items():
            d1 = after["demes"][did]
            stepped = d0["active"] and not (hib_on and d0["hib"])
            grown = len(d1["hist"]) - len(d0["hist"])
            if grown != (1 if stepped else 0):
                raise Violation("C06" if want == "C06" else "C18", "a deme did not advance by exactly one metaepoch when runnable / moved when not",
                                dict(deme=did, was_active=d0["active"], was_hibernating=d0["hib"], grown=grown))
            if not stepped and d1["nev"] != d0["nev"]:
                raise Violation("C18" if d0["active"] else "C06", "a deme that did not run evaluated the objective", dict(deme=did))
            if not d0["active"] and d1["active"]:
                raise Violation("C06", "an inactive deme was reactivated", dict(deme=did))
        for did, d1 in after["demes"].items():
            if did not in before["demes"]:
                if len(d1["hist"]) != 1:
                    raise Violation("C06", "a freshly sprouted deme already ran", dict(deme=did))
                if d1["hib"]:
                    raise Violation("C18", "a deme created by this sprouting round is hibernating", dict(deme=did, level=d1["level"]))
        if not hib_on and any(d["hib"] for d in after["demes"].values()):
            raise Violation("C18", "a deme hibernates although hibernation is disabled")
    if want == "C05" and state["gsc_true"]:
        if len(all_demes(tree)) != state["demes_at_true"]:
            raise Violation("C05", "a deme was sprouted after the stop condition had been observed true")
        first = STATE.get("first_eval", {})
        for d in all_demes(tree):
            if type(d).__name__ == "LocalDeme":
                continue
            # generations produced after the first true verdict: some member was evaluated for the first time after it
            later = [g for me in d._history for g in me
                     if any(first.get(np.asarray(i.genome, dtype=float).tobytes(), -1) > state["calls_at_true"] for i in g)]
            if len(later) > 1:
                raise Violation("C05", "more than one further generation after the stop condition was observed true",
                                dict(deme=d._id, cls=type(d).__name__, generations_after=len(later)))


def final_checks(tree, sc, obj, fp, state, want):
    if want in ("C01", "C02"):
        check_individuals(tree, obj, fp, sc)
    if want == "C03":
        check_counts(tree, obj, "end of run")
    if want == "C04":
        check_best(tree, sc, state)
        if not any(type(d).__name__ == "LocalDeme" for d in all_demes(tree)) and obj.values:
            best_seen = max(obj.values) if sc["maximize"] else min(obj.values)
            if better(sc["maximize"], best_seen, tree.best_individual.fitness):
                raise Violation("C04", "the reported best is worse than the best objective value ever observed",
                                dict(reported=float(tree.best_individual.fitness), observed=float(best_seen)))
    if want == "C05":
        if sc["gsc"] == "metaepoch" and tree.metaepoch_count != sc["gsc_n"]:
            raise Violation("C05", "run() with MetaepochLimit(n) did not stop at exactly n", dict(n=sc["gsc_n"], count=tree.metaepoch_count))
    if want == "C20":
        check_reports(tree, sc, obj)
    if want == "C09":
        check_centroids(tree)


def check_reports(tree, sc, obj):
    calls = obj.calls
    snap = tree_snapshot(tree)
    rng_state = np.random.get_state()[1].tobytes()
    s1 = tree.summary()
    t1 = tree.tree()
    b = tree.best_individual
    _ = tree.all_individuals
    for d in all_demes(tree):
        _ = d.best_individual, d.best_current_individual, d.centroid
        try:
            _ = d.best_fitness_by_metaepoch
        except ValueError:
            pass      # a local deme whose search recorded no iterate has an empty generation: max() of nothing (not a listed property)
    s2 = tree.summary()
    if obj.calls != calls:
        raise Violation("C20", "a reporting / query accessor invoked the objective")
    if tree_snapshot(tree) != snap:
        raise Violation("C20", "a reporting / query accessor changed the tree")
    if s1 != s2:
        raise Violation("C20", "summary() gives different answers when called twice")
    lines = s1.splitlines()
    if f"Metaepoch count: {tree.metaepoch_count}" not in lines:
        raise Violation("C20", "summary() metaepoch count disagrees with the tree")
    if f"Number of evaluations: {sum(d.n_evaluations for d in all_demes(tree))}" not in lines:
        raise Violation("C20", "summary() total evaluation count disagrees with the tree")
    if f"Number of demes: {len(all_demes(tree))}" not in lines:
        raise Violation("C20", "summary() deme count disagrees with the tree")
    # per-level sections
    sect = None
    per_level = {}
    for ln in lines:
        if ln.startswith("Level "):
            sect = int(ln.split()[1].rstrip(".")) - 1
            per_level[sect] = {}
        elif sect is not None and ln.startswith("Number of evaluations: "):
            per_level[sect]["evals"] = int(ln.split(": ")[1])
        elif sect is not None and ln.startswith("Number of demes: "):
            per_level[sect]["demes"] = int(ln.split(": ")[1])
    for l, lv in enumerate(tree._levels):
        if not lv:
            continue
        got = per_level.get(l, {})
        if got.get("evals") != sum(d.n_evaluations for d in lv):
            raise Violation("C20", "summary() per-level evaluation count disagrees with the level's demes",
                            dict(level=l + 1, reported=got.get("evals"), demes=sum(d.n_evaluations for d in lv), wrap=sc.get("wrap")))
        if got.get("demes") != len(lv):
            raise Violation("C20", "summary() per-level deme count disagrees with the tree", dict(level=l + 1, reported=got.get("demes"), demes=len(lv)))
    shown = [d for d in all_demes(tree) if d._sprout_seed is None or len(d._history) - 1 >= 1]
    tl = [ln for ln in t1.splitlines() if ln.strip()]
    if len(tl) != len(shown):
        raise Violation("C20", "tree() does not show one line for the root and every deme that has run", dict(lines=len(tl), expected=len(shown)))
    best = tree.best_individual.fitness
    import re
    parsed = {}
    for ln in tl:
        m = re.search(r"(\w+Deme) (\S+)( \*\*\* | )f\(", ln)
        if m:
            parsed[m.group(2)] = ln
    for d in shown:
        ln = parsed.get("root" if d._sprout_seed is None else d._id)
        if ln is None:
            raise Violation("C20", "tree() has no line for a deme that has run", dict(deme=d._id))
        if f"evals: {d.n_evaluations}" not in ln:
            raise Violation("C20", "a deme line of tree() carries a wrong evaluation count", dict(deme=d._id))
        if (" *** " in ln) != (d.best_individual.fitness == best):
            raise Violation("C20", "the *** marker is not on exactly the demes whose best equals the global best",
                            dict(deme=d._id, deme_best=float(d.best_individual.fitness), best=float(best), marked=" *** " in ln))


# ---- whole-run relations (C13 twin, C14 reproducibility) ------------------------------------------------------------
def run_plain(sc, seed_prior, flip=False):
    np.random.seed(seed_prior)
    random.seed(seed_prior + 1)
    sc2 = dict(sc)
    if flip:
        sc2["maximize"] = not sc["maximize"]
    cfg, obj, fp = build(sc2)
    if flip:
        obj.sign = -obj.sign if False else obj.sign
    tree = DemeTree(cfg)
    n = 0
    while not tree._gsc(tree) and n < 40:
        tree.run_step()
        n += 1
    return tree, obj


def fingerprint(tree, negate=False):
    out = []
    for lv in tree._levels:
        for d in lv:
            out.append((d._id, d._started_at, d._active, d.n_evaluations,
                        tuple(tuple(tuple((i.genome.tobytes(), (-i.fitness if negate else i.fitness)) for i in g) for g in me) for me in d._history)))
    return out


def check_reproducible(sc):
    t1, o1 = run_plain(sc, 1)
    t2, o2 = run_plain(sc, 999)
    f1, f2 = fingerprint(t1), fingerprint(t2)
    if f1 != f2:
        k = next(i for i, (a, b) in enumerate(zip(f1, f2)) if a != b) if len(f1) == len(f2) else -1
        raise Violation("C14", "two runs with the same random_seed produced different trees",
                        dict(demes=(len(f1), len(f2)), first_difference=(f1[k][0] if k >= 0 else "number of demes")))


def check_cross_process(sc_index, seed, tier):
    """the same seeded configuration in two interpreter processes with different PYTHONHASHSEED"""
    import hashlib
    import subprocess
    outs = []
    for hs in ("1", "4242"):
        p = subprocess.run([sys.executable, os.path.abspath(__file__), "FINGERPRINT", "--seed", str(seed), "--tier", tier, "--obligation", str(sc_index)],
                           capture_output=True, text=True, env=dict(os.environ, PYTHONHASHSEED=hs), timeout=600)
        outs.append([ln for ln in p.stdout.splitlines() if ln.startswith("FP ")])
    if not outs[0] or not outs[1]:
        return False
    if outs[0] != outs[1]:
        raise Violation("C14", "the same seeded configuration built different trees in two interpreter processes (PYTHONHASHSEED 1 vs 4242)",
                        dict(scenario_index=sc_index, first=outs[0][0][:80], second=outs[1][0][:80]))
    return True


def check_twin(sc):
    """(f, maximize) against (-f, minimize): objective wrapper flips the sign together with the direction"""
    if any(k in ("sea", "seax", "ga", "adaptive", "mwea") for k in sc["kinds"]) or sc["lsc"] == "steady":
        return False
    a, _ = run_plain(dict(sc, maximize=True), 5)
    b, _ = run_plain(dict(sc, maximize=False), 5)
    fa, fb = fingerprint(a, negate=True), fingerprint(b)
    if fa != fb:
        raise Violation("C13", "seeded runs on (f, maximize) and (-f, minimize) visit different genomes / build different trees",
                        dict(kinds=sc["kinds"], demes=(len(fa), len(fb))))
    return True


# ---- minimize() -------------------------------------------------------------------------------------------------------
def check_minimize(seed, want):
    rng = random.Random(seed)
    for trial in range(3):
        maxfun = rng.choice([50, 100, 137, 400])
        calls = []

        def f(x):
            calls.append(np.asarray(x).copy())
            return float(np.sum((np.asarray(x) - 0.3) ** 2))
        box = np.array([(-2.0, 3.0)] * 2)
        r = pyhms.minimize(f, box, maxfun=maxfun, seed=rng.randrange(1000), log_level="error")
        if want == "C03":
            if r.nfev != len(calls):
                raise Violation("C03", "minimize().nfev differs from the number of calls made to fun", dict(maxfun=maxfun, nfev=r.nfev, calls=len(calls)))
            if len(calls) > maxfun:
                raise Violation("C03", "minimize(maxfun=N) invoked fun more than N times", dict(maxfun=maxfun, calls=len(calls)))
        if want == "C01":
            if any(np.any(c < box[:, 0]) or np.any(c > box[:, 1]) for c in calls) or np.any(r.x < box[:, 0]) or np.any(r.x > box[:, 1]):
                raise Violation("C01", "minimize() evaluated or returned a point outside the box")
        if want == "C04":
            vals = [float(np.sum((c - 0.3) ** 2)) for c in calls]
            if r.fun != min(vals):
                raise Violation("C04", "minimize().fun is not the minimum of everything fun returned", dict(fun=r.fun, min=min(vals)))
        if want == "C02" and r.fun != float(np.sum((r.x - 0.3) ** 2)):
            raise Violation("C02", "minimize() returned (x, fun) with fun != f(x)")
        if want == "C05":
            pass


KNOWN_PREDICATES = {
    "all_active_demes_hibernate": lambda w: bool(w.get("detail", {}).get("active")) and
    set(w["detail"].get("active", [])) <= set(w["detail"].get("hibernating", [])) and "without a single objective evaluation" in w.get("what", ""),
}


def main():
    ap = argparse.ArgumentParser()
    ap.add_argument("pid")
    ap.add_argument("--seed", type=int, default=0)
    ap.add_argument("--tier", default="quick")
    ap.add_argument("--obligation", default="")
    ap.add_argument("--ignore", default="", help="comma separated names of known-finding signatures to skip over")
    a = ap.parse_args()
    ignore = [x for x in a.ignore.split(",") if x]
    known_hits = []
    want = a.pid
    t0 = time.time()
    scs = scenarios(a.seed, a.tier, want)
    if want == "FINGERPRINT":
        import hashlib
        sc = scs[int(a.obligation)]
        t, _ = run_plain(sc, 3)
        print("FP " + hashlib.sha1(repr(fingerprint(t)).encode()).hexdigest() + f" demes={len(all_demes(t))}")
        sys.exit(0)
    ran, nontrivial, samples = 0, 0, []
    try:
        if want in ("C01", "C02", "C03", "C04"):
            check_minimize(a.seed, want)
        for sc in scs:
            try:
                if want == "C14":
                    check_reproducible(sc)
                    if ran < 4:
                        check_cross_process(scs.index(sc), a.seed, a.tier)
                    ran += 1
                    nontrivial += 1
                elif want == "C13":
                    if check_twin(sc):
                        nontrivial += 1
                    ran += 1
                else:
                    tree, obj = run_scenario(sc, want)
                    ran += 1
                    if len(all_demes(tree)) > 1:
                        nontrivial += 1
            except Violation as v:
                if v.pid == want:
                    w_ = dict(what=v.what, detail=v.detail)
                    if any(KNOWN_PREDICATES[n](w_) for n in ignore if n in KNOWN_PREDICATES):
                        known_hits.append(dict(what=v.what, kinds=sc["kinds"], scenario=sc["id"]))
                        ran += 1
                        continue
                    raise
                ran += 1
            if len(samples) < 5:
                samples.append({k: sc[k] for k in ("kinds", "objective", "box", "maximize", "sprout", "gsc", "lsc", "hibernation", "level_limit")})
    except Violation as v:
        if v.pid == want or want == "ANY":
            print("WITNESS " + json.dumps(dict(property=v.pid, what=v.what, detail=v.detail,
                                               scenario={k: (x if not isinstance(x, np.ndarray) else x.tolist()) for k, x in (locals().get("sc") or {}).items()},
                                               driver="replay/battery.py", seed=a.seed), default=str))
            sys.exit(1)
    print("SUMMARY " + json.dumps(dict(property=want, scenarios=ran, nontrivial=nontrivial, seconds=round(time.time() - t0, 1), samples=samples,
                                       known_hits=known_hits)))
    sys.exit(0)


if __name__ == "__main__":
    main()
