"""Deliberately false clauses, one per encoding feature: each must FAIL on every run."""
from pyvc.spec import canary, cl

P = "pyhms.core.problem."
canary(P + "EvalCountingProblem.evaluate", "heap_frame", "C16 C03",
       ensures=[cl("CANARY_counter_unchanged", "self._n_evals == old(self._n_evals)"),
                cl("CANARY_objective_not_called", "ncalls(inner(self)) == old(ncalls(inner(self)))")])
canary(P + "PrecisionCutoffProblem.evaluate", "fl_order", "C16",
       ensures=[cl("CANARY_eta_unchanged", "same(self.ETA, old(self.ETA))"),
                cl("CANARY_result_finite", "is_fin(result)")])
canary(P + "EvalCutoffProblem.evaluate", "paths", "C16 C03",
       ensures=[cl("CANARY_always_forwards", "self._n_evals == old(self._n_evals) + 1")])

# one per later encoding feature (loops with local frames, dict / sorted models, comprehension position witnesses, constructors with ghost
# statements, nested loops with early returns, heap functions)
D = "pyhms.demes."
canary(D + "lhs_deme.LHSDeme.run", "loop_local_frame", "C06 C02",
       ensures=[cl("CANARY_history_unchanged", "len(self._history) == old(len(self._history))")])
canary(D + "abstract_deme.AbstractDeme.__init__", "ghost_at_construction", "C07 C18",
       ensures=[cl("CANARY_starts_hibernating", "self._hibernating"), cl("CANARY_shares_the_level_problem", "self._problem == deme_init_args.config.problem")])
canary(D + "abstract_deme.AbstractDeme.best_individual", "heap_function", "C04 C13",
       ensures=[cl("CANARY_never_an_individual", "result == None")])
S = "pyhms.sprout.sprout_filters."
canary(S + "DemeLimit.__call__", "dict_sorted_slice", "C10",
       ensures=[cl("CANARY_keeps_limit_plus_one", "forall(lambda k: imp(0 <= k < len(candidates.keys()), "
                   "len(candidates[candidates.keys()[k]].individuals) == self.limit + 1), pat=candidates.keys()[k])")])
canary(S + "FarEnough.__call__", "comprehension_positions", "C09",
       ensures=[cl("CANARY_everything_removed", "forall(lambda k: imp(0 <= k < len(candidates.keys()), "
                   "len(candidates[candidates.keys()[k]].individuals) == 0), pat=candidates.keys()[k])")])
canary("pyhms.stop_conditions.gsc.NoActiveNonrootDemes.__call__", "nested_loops_early_return", "C05",
       ensures=[cl("CANARY_always_true", "result")])
