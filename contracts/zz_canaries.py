"""Deliberately false clauses, one per encoding feature: each must FAIL on every run."""
from pyvc.spec import canary, cl

P = "pyhms.core.problem."
canary(P + "EvalCountingProblem.evaluate", "heap_frame", "C16 C03",
       ensures=[cl("CANARY_counter_unchanged", "self._n_evals == old(self._n_evals)"),
                cl("CANARY_objective_not_called", "ncalls(inner(self)) == old(ncalls(inner(self)))")])
canary(P + "PrecisionCutoffProblem.evaluate", "fl_order", "C16",
       ensures=[cl("CANARY_eta_unchanged", "same(self.ETA, old(self.ETA))"),
                cl("CANARY_result_finite", "is_fin(result)")])
canary(P + "EvalCutoffProblem.evaluate", "paths", "C16 C03",
       ensures=[cl("CANARY_always_forwards", "self._n_evals == old(self._n_evals) + 1")])
