"""pyhms/demes/*.py - one metaepoch of each engine (C05, C06, C11, C03) against the abstract deme contract."""
from pyvc.spec import cl, fn, macro, ghost_fields, fields, trusted, refine, CONTRACTS
from pyvc_contracts_c20_individual import chain_frame
from pyvc_contracts_d10_tree_structure import USER_PROBLEM_FRAME
from pyvc_contracts_d20_tree_run import OWN_FRAME
from pyvc_contracts_d30_tree_init import RNG_FRAME

D = "pyhms.demes."
fields("EADeme", _sample_std_dev="fl", _pop_size="int", _generations="int", _ea="ref:BaseSEA")
fields("DEDeme", _sample_std_dev="fl", _pop_size="int", _generations="int", _de="ref:DE")
fields("SHADEDeme", _sample_std_dev="fl", _pop_size="int", _init_pop_size="int", _generations="int", _shade="ref:SHADE")
fields("CMADeme", generations="int", _cma_es="ref:$CMAES")
fields("LHSDeme", _pop_size="int", sampler="ref:$QMC", lower_bounds="oarr", upper_bounds="oarr")
fields("SobolDeme", _pop_size="int", sampler="ref:$QMC", lower_bounds="oarr", upper_bounds="oarr")

ghost_fields(**{"$born": "int"})
macro("born", ["x"], 'field(x, "$born", "int")')      # value of clock() right after the evaluation that set x.fitness

# a population of one deme: evaluated individuals that all go through the deme's own counting wrapper
macro("PopOf", ["p", "pop"], """
    pop != None and len(pop) >= 1 and forall(lambda k: imp(0 <= k < len(pop), pop[k] != None and pop[k].problem == p
                                                         and evaluated(pop[k])), pat=pop[k])
""")
macro("SameInd", ["a", "b"], "a.genome == b.genome and same(a.fitness, b.fitness)")
# C11: every individual of `new` already belonged to `prev` (same genome and fitness) or was evaluated after time t0
macro("BredFrom", ["new", "prev", "t0"], """
    forall(lambda k: imp(0 <= k < len(new), exists(lambda j: 0 <= j and j < len(prev) and SameInd(new[k], prev[j]))
                                            or born(new[k]) > t0), pat=new[k])
""")

ENGINE_FRAME = [("stds", "True"), ("_archive", "True"), ("_k", "True"), ("$arr", "True")]


def engine_contract(qual, abstract=False, extra_params=None):
    params = {"parents": "list[ref:Individual]"}
    params.update(extra_params or {})
    return fn(qual, abstract=abstract, trusted=not abstract, params=params, returns="list[ref:Individual]", fresh_result=True,
              requires=[cl("parents", "PopOf(parents[0].problem, parents) and WfProblem(parents[0].problem)")],
              modifies=chain_frame("parents[0].problem") + ENGINE_FRAME + RNG_FRAME + [("$born", "False")],
              ensures=[cl("same_size", "len(result) == len(parents) and kind(result) == 0", tags="C12"),
                       cl("offspring_population", "PopOf(parents[0].problem, result)", tags="C02 C03"),
                       cl("fresh_individuals", "forall(lambda k: imp(0 <= k < len(result), fresh(result[k])), pat=result[k])", tags="C02"),
                       cl("bred_from_the_parents", "BredFrom(result, parents, old(clock()))", tags="C11"),
                       cl("born_now", "forall(lambda k: imp(0 <= k < len(result), born(result[k]) <= clock()), pat=result[k])", tags="C11"),
                       cl("parents_untouched", "forall(lambda k: imp(0 <= k < len(parents), parents[k].genome == old(parents[k].genome) "
                          "and same(parents[k].fitness, old(parents[k].fitness))), pat=parents[k])", tags="C02"),
                       cl("clock", "clock() >= old(clock())"),
                       cl("every_invocation_goes_through_the_parents_problem",
                          "imp(instance_of(parents[0].problem, 'EvalCountingProblem'), "
                          "cast(parents[0].problem, 'ref:EvalCountingProblem')._n_evals - old(cast(parents[0].problem, 'ref:EvalCountingProblem')._n_evals) "
                          ">= clock() - old(clock()))", tags="C03")],
              note="engine iteration: the numeric kernels are verified separately (population/operator contracts)")


S = "pyhms.demes.single_pop_eas."
engine_contract(S + "sea.BaseSEA.run", abstract=True)
engine_contract(S + "de.DE.run")
engine_contract(S + "de.SHADE.run")

A = D + "abstract_deme.AbstractDeme."
fn(A + "log", params={"message": "str"}, modifies=[("_centroid", "o == self")], trusted=True,
   note="logging: reads accessors, may fill the centroid cache")
fn(D + "ea_deme.EADeme._get_mutation_std", returns="fl", pure=True, trusted=True,
   note="reads the level configuration only; its value is not constrained by any property")

# the state every population-based deme keeps between metaepochs
macro("DemePop", ["d"], "PopOf(d._problem, cur_pop(d)) and WfProblem(d._problem)")


def deme_loop_invariants(gens, counter, limit):
    return [
        cl("inv_counter", f"0 <= {counter} and {counter} == len({gens}) and {counter} <= {limit} and {gens} != None and fresh({gens})",
           tags="C04 C06"),
        cl("inv_history_untouched", "self._history == old(self._history) and len(self._history) == old(len(self._history)) and "
           "forall(lambda m: imp(0 <= m < len(self._history), self._history[m] == old(self._history[m])), pat=self._history[m]) "
           "and HistShape(self) and cur_pop(self) == old(cur_pop(self))"),
        cl("inv_still_active", "self._active and not engine_stop(self)"),
        cl("inv_generations_are_populations", f"forall(lambda g: imp(0 <= g < len({gens}), PopOf(self._problem, {gens}[g]) "
           f"and fresh({gens}[g]) and kind({gens}[g]) == 0), pat={gens}[g])"),
        cl("inv_consulted_after_each_generation", f"imp({counter} > 0, not gsc_last(tree) and gsc_clock(tree) == clock())", tags="C05"),
        cl("inv_tree", "DemeRunnable(tree, self) and tree._gsc != None"),
        cl("inv_count", "counted(self) - old(counted(self)) >= clock() - old(clock()) and clock() >= old(clock())", tags="C03"),
    ]


PREV = "ite({c} > 0, {g}[{c} - 1], old(cur_pop(self)))"


def population_deme(qual, engine_attr, engine_call, gens="metaepoch_generations", counter="epoch_counter", limit="self._generations"):
    prev = PREV.format(c=counter, g=gens)
    return refine(qual, A + "run_metaepoch", locals={gens: "list[list[ref:Individual]]"},
                  # (no extra precondition: the class invariant of an active deme is part of the tree invariant the abstract contract requires)
                  modifies=OWN_FRAME + USER_PROBLEM_FRAME,
                  loops={0: dict(invariant=deme_loop_invariants(gens, counter, limit))},
                  calls={engine_call: [
                      cl("parents_is_previous_generation", f"arg0 == {prev}", tags="C11 C12"),
                      cl("no_generation_after_the_stop_condition_was_seen",
                         f"imp({counter} > 0, not gsc_last(tree) and gsc_clock(tree) == clock())", tags="C05")]},
                  ensures=[cl("population_kept", "DemePop(self)", tags="C02 C03"),
                           cl("at_most_the_configured_generations", f"len(self._history[-1]) <= {limit} and len(self._history[-1]) >= 1", tags="C05 C06")])


population_deme(D + "ea_deme.EADeme.run_metaepoch", "_ea", "BaseSEA.run")
population_deme(D + "de_deme.DEDeme.run_metaepoch", "_de", "DE.run")
population_deme(D + "shade_deme.SHADEDeme.run_metaepoch", "_shade", "SHADE.run")

# ---- Individual.evaluate_population (used by CMA/LHS/Sobol demes and constructors) ---------------------------------------
I = "pyhms.core.individual.Individual."
macro("Unevaluated", ["p", "pop"], """
    pop != None and forall(lambda k: imp(0 <= k < len(pop), pop[k] != None and pop[k].problem == p), pat=pop[k])
""")
# an empty population evaluates nothing: the frame is empty then
EVALPOP_FRAME = [(f, "len(population) > 0 and (" + c + ")") for f, c in chain_frame("population[0].problem")]
fn(I + "evaluate_population", params={"population": "list[ref:Individual]"}, returns="list[ref:Individual]", self="Individual",
   requires=[cl("one_problem", "len(population) >= 0 and imp(len(population) > 0, Unevaluated(population[0].problem, population) "
                "and WfProblem(population[0].problem))")],
   modifies=EVALPOP_FRAME + [("fitness", "exists(lambda k: 0 <= k and k < len(population) and o == population[k])")],
   loops={0: dict(index="k", modifies=EVALPOP_FRAME + [("fitness", "exists(lambda q: 0 <= q and q < len(population) and o == population[q])")],
                  invariant=[
       cl("inv_done", "forall(lambda q: imp(0 <= q < k, evaluated(population[q])), pat=population[q])"),
       cl("inv_same", "imp(len(population) > 0, Unevaluated(population[0].problem, population) and WfProblem(population[0].problem))"),
       cl("inv_evaluated_stay", "forall(lambda q: imp(0 <= q < len(population) and not old(needs_eval(population[q])), "
          "same(population[q].fitness, old(population[q].fitness))), pat=population[q])"),
       cl("inv_count", "imp(len(population) > 0 and instance_of(population[0].problem, 'EvalCountingProblem'), "
          "cast(population[0].problem, 'ref:EvalCountingProblem')._n_evals - old(cast(population[0].problem, 'ref:EvalCountingProblem')._n_evals) "
          ">= clock() - old(clock())) and clock() >= old(clock())"),
   ])},
   ensures=[cl("returns_argument", "result == population"),
            cl("all_evaluated", "forall(lambda q: imp(0 <= q < len(population), evaluated(population[q])), pat=population[q])", tags="C02"),
            cl("evaluated_ones_kept", "forall(lambda q: imp(0 <= q < len(population) and not old(needs_eval(population[q])), "
               "same(population[q].fitness, old(population[q].fitness))), pat=population[q])", tags="C02"),
            cl("counted", "imp(len(population) > 0 and instance_of(population[0].problem, 'EvalCountingProblem'), "
               "cast(population[0].problem, 'ref:EvalCountingProblem')._n_evals - old(cast(population[0].problem, 'ref:EvalCountingProblem')._n_evals) "
               ">= clock() - old(clock())) and clock() >= old(clock())", tags="C03")])
