"""pyhms/demes/abstract_deme.py - accessors (C03, C04, C20) and the history vocabulary."""
from pyvc.spec import cl, fn, macro, specfn, invariant

D = "pyhms.demes.abstract_deme.AbstractDeme."

# spec-level views of a deme's nested history (written from the property statements, not from the accessors)
macro("gens", ["d"], "[g for me in d._history for g in me]")
macro("all_inds", ["d"], "[ind for g in gens(d) for ind in g]")
macro("cur_pop", ["d"], "d._history[-1][-1]")
macro("counted", ["d"], "d._problem._n_evals")
# shape invariant of a deme's history: at least the initial entry, no empty metaepoch entry at the end
macro("HistShape", ["d"], """
    d._history != None and len(d._history) >= 1 and d._history[-1] != None and len(d._history[-1]) >= 1
    and d._history[-1][-1] != None
""")
macro("DemeWf", ["d"], """
    d != None and d._problem != None and WfProblem(d._problem) and d._history != None and d._children != None
""")

fn(D + "n_evaluations", returns="int", value="counted(self)", abstract=True,
   note="abstract: LocalDeme overrides it; both are proved to return the count of the deme's own counting wrapper")

fn(D + "history", returns="list[list[ref:Individual]]", inline=True, pure=True,
   requires=[cl("wf", "self._history != None")],
   ensures=[cl("all_generations_in_order", "len(result) == len(gens(self)) and "
               "forall(lambda j: imp(0 <= j < len(result), result[j] == gens(self)[j]))", tags="C20 C04")])

fn(D + "all_individuals", returns="list[ref:Individual]", inline=True, pure=True,
   requires=[cl("wf", "self._history != None")],
   ensures=[cl("every_recorded_individual", "len(result) == len(all_inds(self)) and "
               "forall(lambda j: imp(0 <= j < len(result), result[j] == all_inds(self)[j]))", tags="C20 C04")])

fn(D + "current_population", returns="list[ref:Individual]", inline=True, pure=True,
   requires=[cl("shape", "HistShape(self)")],
   ensures=[cl("last_generation_of_last_metaepoch", "result == cur_pop(self)", tags="C11 C10 C09 C04")])

BEST = [cl("none_iff_empty", "iff(result == None, len({pool}) == 0)", tags="C04 C20"),
        cl("is_member", "imp(len({pool}) > 0, exists(lambda k: 0 <= k < len({pool}) and result == {pool}[k]))", tags="C04 C02"),
        cl("none_better", "imp(forall(lambda k: imp(0 <= k < len({pool}), {pool}[k] != None and evaluated({pool}[k]) "
           "and inner({pool}[k].problem) == inner(self._problem))), "
           "forall(lambda k: imp(0 <= k < len({pool}), not ind_lt(result, {pool}[k]))))", tags="C04 C13")]


def best_clauses(pool):
    return [cl(c.label, c.text.replace("{pool}", pool), " ".join(sorted(c.tags))) for c in BEST]


fn(D + "best_individual", returns="ref:Individual", heapfn=True,
   requires=[cl("wf", "self._history != None")],
   ensures=best_clauses("all_inds(self)"))

fn(D + "best_current_individual", returns="ref:Individual", heapfn=True,
   requires=[cl("shape", "HistShape(self)")],
   ensures=best_clauses("cur_pop(self)"))
