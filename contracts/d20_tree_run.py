"""pyhms/tree.py - run / run_step / run_metaepoch / run_sprout (C05, C06, C18) and sprouting seeds interface."""
from pyvc.spec import cl, fn, macro, ghost_fields, fields, trusted
from pyvc_contracts_d10_tree_structure import struct, PREFIX, NEWDEMES, TREE_LISTS, USER_PROBLEM_FRAME

T = "pyhms.tree.DemeTree."
SM = "pyhms.sprout.sprout_mechanisms.SproutMechanism."

ghost_fields(**{"$last_seeds": "dict[ref:AbstractDeme,ref:DemeCandidates]"})
macro("last_seeds", ["t"], 'field(t, "$last_seeds", "dict[ref:AbstractDeme,ref:DemeCandidates]")')
# positions of the iterated sequence that the loop has already handled / still has to handle, whatever the direction
macro("Done", ["rev", "n", "j", "q"], "ite(rev, n - j <= q and q < n, 0 <= q and q < j)")
macro("Todo", ["rev", "n", "j", "q"], "ite(rev, 0 <= q and q < n - j, j <= q and q < n)")
macro("hibernation_on", ["t"], "'hibernation' in t.config.options and t.config.options['hibernation']")
# a well-formed sprouting mechanism: a generator, two chains of filters, two bookkeeping lists (ghost kind 7)
macro("MechOk", ["m"], """
    m != None and m.candidates_generator != None and m.deme_filter_chain != None and m.tree_filter_chain != None
    and forall(lambda f: imp(0 <= f < len(m.deme_filter_chain), m.deme_filter_chain[f] != None))
    and forall(lambda f: imp(0 <= f < len(m.tree_filter_chain), m.tree_filter_chain[f] != None))
    and m._generated_deme_ids_to_candidates_history != None and kind(m._generated_deme_ids_to_candidates_history) == 7
    and m._used_deme_ids_to_candidates_history != None and kind(m._used_deme_ids_to_candidates_history) == 7
""")
macro("ActiveNonLeaf", ["t", "d"], "InTree(t, d) and d._active and d._level < len(t._levels) - 1")

# ---- the seeds a sprouting round uses (interface between the sprout mechanism and the tree) --------------------
SEEDS_POST = [
    cl("seeds_ok", "SeedsOk(tree, result)", tags="C07 C10"),
    cl("fresh_dict", "fresh(result)"),
    cl("every_entry_has_a_candidate", "forall(lambda k: imp(0 <= k < len(result.keys()), len(result[result.keys()[k]].individuals) > 0), "
       "pat=result.keys()[k])", tags="C18"),
]
fn(SM + "get_seeds", params={"tree": "ref:DemeTree"}, returns="dict[ref:AbstractDeme,ref:DemeCandidates]",
   requires=[cl("tree", "tree != None")] + [cl("s_" + c.label, c.text.replace("self", "tree")) for c in struct("self")]
            + [cl("problems", "LevelProblemsWf(tree)")],
   modifies=[("_centroid", "True"), ("$list<ref:$Opaque>", "kind(o) == 7"), ("_threshold", "True"), ("individuals", "True")],
   ensures=SEEDS_POST + [cl("t_" + c.label, c.text.replace("self", "tree")) for c in struct("self")],
   trusted=True, note="interface contract of the sprouting mechanism towards the tree; get_seeds itself is verified in e-files")

HIB_FRAME = [("_hibernating", "InTree(self, cast(o, 'ref:AbstractDeme'))")]

fn(T + "run_sprout",
   ghost_after={"get_seeds@0": ["setg(self, '$last_seeds', _call_result)"]},
   requires=struct("self") + [cl("problems", "LevelProblemsWf(self)"),
                              cl("mechanism", "MechOk(self._sprout_mechanism)")],
   modifies=TREE_LISTS + USER_PROBLEM_FRAME + HIB_FRAME + [("_centroid", "True"), ("$list<ref:$Opaque>", "kind(o) == 7"), ("_threshold", "True"),
                                                           ("$last_seeds", "o == self"), ("individuals", "True")],
   loops={0: dict(index="j", seq_base="anl", modifies=HIB_FRAME, invariant=[
       cl("inv_processed", "forall(lambda q: imp(Done(iter_reversed, len(anl), j, q), "
          "anl[q][1]._hibernating == (not (anl[q][1] in deme_seeds))))"),
       cl("inv_seeds", "deme_seeds == last_seeds(self)"),
       cl("inv_awake_new", "forall(lambda l, i: imp(0 <= l < len(self._levels) and old(len(self._levels[l])) <= i and i < len(self._levels[l]), "
          "not self._levels[l][i]._hibernating and self._levels[l][i]._active and len(self._levels[l][i]._history) == 1), "
          "pat=self._levels[l][i])")] + struct("self", prefix="inv_") + PREFIX)},
   ensures=struct("self") + PREFIX + [
       cl("created_demes_awake",
          "forall(lambda l, i: imp(0 <= l < len(self._levels) and old(len(self._levels[l])) <= i and i < len(self._levels[l]), "
          "not self._levels[l][i]._hibernating and self._levels[l][i]._active), pat=self._levels[l][i])", tags="C18 C06"),
       cl("participants_sleep_iff_not_sprouted_from",
          "imp(hibernation_on(self), forall(lambda l, i: imp(0 <= l and l < len(self._levels) - 1 and 0 <= i < old(len(self._levels[l])) "
          "and old(self._levels[l][i]._active), "
          "self._levels[l][i]._hibernating == (not (self._levels[l][i] in last_seeds(self)))), pat=self._levels[l][i]))", tags="C18"),
       cl("created_demes_unrun",
          "forall(lambda l, i: imp(0 <= l < len(self._levels) and old(len(self._levels[l])) <= i and i < len(self._levels[l]), "
          "len(self._levels[l][i]._history) == 1), pat=self._levels[l][i])", tags="C06"),
       cl("no_flag_written_when_off", "imp(not hibernation_on(self), forall(lambda d: imp(old(allocated(d)), "
          "d._hibernating == old(d._hibernating)), d='ref:AbstractDeme'))", tags="C18"),
   ])

# ---- stop-condition consultations (ghost record of the last verdict) ---------------------------------------------
ghost_fields(**{"$gsc_last": "bool", "$gsc_clock": "int", "$steps": "int", "$lsc_last": "bool", "$engine_stop": "bool"})
macro("gsc_last", ["t"], 'field(t, "$gsc_last", "bool")')       # verdict of the most recent consultation of t's global stop condition
macro("gsc_clock", ["t"], 'field(t, "$gsc_clock", "int")')      # value of clock() at that consultation
macro("steps", ["t"], 'field(t, "$steps", "int")')              # ghost: number of run_step calls performed
macro("lsc_last", ["d"], 'field(d, "$lsc_last", "bool")')
macro("engine_stop", ["d"], 'field(d, "$engine_stop", "bool")')

from pyvc.spec import CONTRACTS  # noqa: E402
_g = CONTRACTS["ext.$GSC.__call__"]
_g.modifies += [("$gsc_last", "o == tree"), ("$gsc_clock", "o == tree")]
_g.ensures += [
    cl("recorded", "gsc_last(tree) == result and gsc_clock(tree) == clock()"),
    # verdict semantics of the two shipped conditions that run() is specified against (each is proved to have it: c40)
    cl("metaepoch_limit_semantics", "imp(exact_type(self, 'MetaepochLimit'), "
       "result == (tree.metaepoch_count >= cast(self, 'ref:MetaepochLimit').limit))"),
    cl("dont_run_semantics", "imp(exact_type(self, 'DontRun'), result)"),
]
_l = CONTRACTS["ext.$LSC.__call__"]
_l.modifies += [("$lsc_last", "o == deme")]
_l.ensures += [cl("recorded", "lsc_last(deme) == result")]

# ---- one deme, one metaepoch (abstract: every engine refines it) ----------------------------------------------------
D = "pyhms.demes.abstract_deme.AbstractDeme."
ghost_fields(**{"$qmc_draws": "int", "$cma_told": "int", "$cma_asked": "int"})
# engine-private state (operator/optimiser internals, generator draw counters): no specification reads it, every deme may write it
ENGINE_PRIVATE = [("stds", "True"), ("_archive", "True"), ("_k", "True"), ("$arr", "True"), ("$np_draws", "o == None"),
                  ("$py_draws", "o == None"), ("$qmc_draws", "True"), ("$cma_told", "True"), ("$cma_asked", "True"),
                  ("_cost_sign", "True")]
# the list a local-search deme collects its iterates in (ghost kind 10): private to that deme, no other engine writes it
LOCAL_PRIVATE = [("$list<ref:Individual>", "field(o, '$kind', 'int') == 10")]
OWN_FRAME = ENGINE_PRIVATE + [("_active", "o == self"), ("_centroid", "o == self"),
             ("$list<list[list[ref:Individual]]>", "o == self._history"),
             ("_n_evals", "o == self or o == self._problem"), ("hit_precision", "o == self._problem"), ("ETA", "o == self._problem"),
             ("$refused", "o == self._problem"), ("$engine_stop", "o == self"),
             ("$gsc_last", "o == tree"), ("$gsc_clock", "o == tree"), ("$lsc_last", "o == self"), ("weights", "o == tree._gsc")]
macro("DemeRunnable", ["t", "d"], """
    InTree(t, d) and d._active and HistShape(d) and d._problem != None and wowner(d._problem) == d
    and d._lsc != None and t._gsc != None
""")
fn(D + "run_metaepoch", abstract=True, params={"tree": "ref:DemeTree"},
   requires=[cl("runnable", "tree != None and DemeRunnable(tree, self)")] + [cl("t_" + c.label, c.text.replace("self", "tree")) for c in struct("self")]
            + [cl("problems", "LevelProblemsWf(tree)")],
   modifies=OWN_FRAME + LOCAL_PRIVATE + USER_PROBLEM_FRAME,
   ensures=[cl("one_more_history_entry", "len(self._history) == old(len(self._history)) + 1 and HistShape(self)", tags="C06"),
            cl("recorded_history_kept", "forall(lambda m: imp(0 <= m < old(len(self._history)), self._history[m] == old(self._history[m])))",
               tags="C02 C06"),
            cl("stops_exactly_when", "self._active == (not (gsc_last(tree) or lsc_last(self) or engine_stop(self)))", tags="C06"),
            cl("an_active_deme_has_a_population", "imp(self._active, len(cur_pop(self)) >= 1 and kind(cur_pop(self)) != 10)", tags="C10 C06"),
            cl("class_invariant_kept", "imp(self._active, ClassInv(self))", tags="C02 C03 C06"),
            cl("count_matches_clock", "counted(self) - old(counted(self)) >= clock() - old(clock()) and clock() >= old(clock())", tags="C03")])

# ---- the tree: one metaepoch -----------------------------------------------------------------------------------------
macro("Stepped", ["t", "d"], "d._active and not (hibernation_on(t) and d._hibernating)")
RUNME_FRAME = ENGINE_PRIVATE + LOCAL_PRIVATE + [("_active", "InTree(self, cast(o, 'ref:AbstractDeme'))"), ("_centroid", "True"),
               ("$list<list[list[ref:Individual]]>", "kind(o) == 3"), ("_n_evals", "True"), ("$engine_stop", "True"),
               ("$gsc_last", "o == self"), ("$gsc_clock", "o == self"), ("$lsc_last", "True"), ("weights", "o == self._gsc")] + \
              [x for x in USER_PROBLEM_FRAME if x[0] != "_n_evals"]
macro("AllRunnable", ["t"], "t._gsc != None")
fn(T + "run_metaepoch",
   requires=struct("self") + [cl("problems", "LevelProblemsWf(self)"), cl("runnable", "AllRunnable(self)")],
   modifies=RUNME_FRAME,
   loops={0: dict(index="j", seq_base="ad", invariant=struct("self", prefix="inv_") + [
       cl("inv_same_lists", "len(self._levels) == old(len(self._levels)) and forall(lambda l: imp(0 <= l < len(self._levels), "
          "self._levels[l] == old(self._levels[l]) and len(self._levels[l]) == old(len(self._levels[l]))), "
          "pats=[self._levels[l], old(self._levels[l])])"),
       cl("inv_same_demes", "forall(lambda l, i: imp(0 <= l < len(self._levels) and 0 <= i < len(self._levels[l]), "
          "self._levels[l][i] == old(self._levels[l][i])), pats=[self._levels[l][i], old(self._levels[l][i])])"),
       cl("inv_runnable", "AllRunnable(self) and LevelProblemsWf(self)"),
       cl("inv_stepped", "forall(lambda q: imp(Done(iter_reversed, len(ad), j, q), "
          "len(ad[q][1]._history) == old(len(ad[q][1]._history)) + ite(old(Stepped(self, ad[q][1])), 1, 0)), pat=ad[q][1])"),
       cl("inv_skipped", "forall(lambda q: imp(Done(iter_reversed, len(ad), j, q) and not old(Stepped(self, ad[q][1])), "
          "counted(ad[q][1]) == old(counted(ad[q][1])) and ad[q][1]._active == old(ad[q][1]._active)), pat=ad[q][1])"),
       cl("inv_waiting", "forall(lambda q: imp(Todo(iter_reversed, len(ad), j, q), "
          "len(ad[q][1]._history) == old(len(ad[q][1]._history)) and ad[q][1]._active "
          "and counted(ad[q][1]) == old(counted(ad[q][1]))), pat=ad[q][1])"),
       cl("inv_inactive_untouched", "forall(lambda l, i: imp(0 <= l < len(self._levels) and 0 <= i < len(self._levels[l]) "
          "and not old(self._levels[l][i]._active), len(self._levels[l][i]._history) == old(len(self._levels[l][i]._history)) "
          "and not self._levels[l][i]._active), pats=[self._levels[l][i], old(self._levels[l][i])])"),
       cl("inv_flags", "forall(lambda d: imp(old(allocated(d)), d._hibernating == old(d._hibernating)), d='ref:AbstractDeme')"),
   ])},
   ensures=struct("self") + [
       cl("each_runnable_deme_advances_once",
          "forall(lambda l, i: imp(0 <= l < len(self._levels) and 0 <= i < len(self._levels[l]), "
          "len(self._levels[l][i]._history) == old(len(self._levels[l][i]._history)) + ite(old(Stepped(self, self._levels[l][i])), 1, 0)), "
          "pat=self._levels[l][i])", tags="C06 C18"),
       cl("skipped_demes_do_not_evaluate",
          "forall(lambda l, i: imp(0 <= l < len(self._levels) and 0 <= i < len(self._levels[l]) "
          "and old(self._levels[l][i]._active) and not old(Stepped(self, self._levels[l][i])), "
          "counted(self._levels[l][i]) == old(counted(self._levels[l][i])) and self._levels[l][i]._active), "
          "pat=self._levels[l][i])", tags="C18 C06"),
       cl("no_structure_change", "forall(lambda l: imp(0 <= l < len(self._levels), len(self._levels[l]) == old(len(self._levels[l]))), "
          "pat=self._levels[l])", tags="C06 C07 C08"),
       cl("stopping_is_final", "forall(lambda l, i: imp(0 <= l < len(self._levels) and 0 <= i < len(self._levels[l]) "
          "and not old(self._levels[l][i]._active), not self._levels[l][i]._active), pat=self._levels[l][i])", tags="C06 C08"),
   ])

# ---- run_step / run ----------------------------------------------------------------------------------------------------
STEP_FRAME = RUNME_FRAME + TREE_LISTS + HIB_FRAME + [("metaepoch_count", "o == self"), ("_logger", "o == self"), ("$steps", "o == self"),
                                                     ("$list<ref:$Opaque>", "kind(o) == 7"), ("_threshold", "True"), ("$last_seeds", "o == self"),
                                                     ("individuals", "True")]
RUN_PRE = struct("self") + [cl("problems", "LevelProblemsWf(self)"), cl("runnable", "AllRunnable(self)"),
                            cl("mechanism", "MechOk(self._sprout_mechanism)")]
fn(T + "run_step",
   ghost_after={"assign:metaepoch_count@0": ["setg(self, '$steps', steps(self) + 1)"]},
   requires=RUN_PRE,
   modifies=STEP_FRAME,
   ensures=struct("self") + PREFIX + [
       cl("runnable", "AllRunnable(self) and LevelProblemsWf(self) and MechOk(self._sprout_mechanism)"),
       cl("counts_one_metaepoch", "self.metaepoch_count == old(self.metaepoch_count) + 1 and steps(self) == old(steps(self)) + 1", tags="C05"),
       cl("no_sprout_once_the_stop_condition_holds", "imp(gsc_last(self), forall(lambda l: imp(0 <= l < len(self._levels), "
          "len(self._levels[l]) == old(len(self._levels[l]))), pat=self._levels[l]))", tags="C05"),
       cl("each_runnable_deme_advances_once",
          "forall(lambda l, i: imp(0 <= l < len(self._levels) and 0 <= i < old(len(self._levels[l])), "
          "len(self._levels[l][i]._history) == old(len(self._levels[l][i]._history)) + ite(old(Stepped(self, self._levels[l][i])), 1, 0)), "
          "pat=self._levels[l][i])", tags="C06"),
       cl("fresh_demes_have_not_run", "forall(lambda l, i: imp(0 <= l < len(self._levels) and old(len(self._levels[l])) <= i "
          "and i < len(self._levels[l]), len(self._levels[l][i]._history) == 1 and self._levels[l][i]._active "
          "and not self._levels[l][i]._hibernating), pat=self._levels[l][i])", tags="C06 C18"),
   ])

fn(T + "run",
   requires=RUN_PRE + [cl("gsc", "self._gsc != None")],
   modifies=STEP_FRAME,
   loops={0: dict(invariant=struct("self", prefix="inv_") + [
       cl("inv_runnable", "AllRunnable(self) and LevelProblemsWf(self) and MechOk(self._sprout_mechanism) and self._gsc != None"),
       cl("inv_counter_counts_steps", "self.metaepoch_count - old(self.metaepoch_count) == steps(self) - old(steps(self)) "
          "and steps(self) >= old(steps(self))", tags="C05"),
       cl("inv_below_limit", "imp(exact_type(self._gsc, 'MetaepochLimit') and "
          "old(self.metaepoch_count) <= cast(self._gsc, 'ref:MetaepochLimit').limit, "
          "self.metaepoch_count <= cast(self._gsc, 'ref:MetaepochLimit').limit)", tags="C05"),
       cl("inv_dont_run_never_steps", "imp(exact_type(self._gsc, 'DontRun'), steps(self) == old(steps(self)))", tags="C05"),
       cl("inv_levels_grow", "forall(lambda l: imp(0 <= l < len(self._levels), len(self._levels[l]) >= old(len(self._levels[l]))), "
          "pat=self._levels[l])"),
   ])},
   ensures=struct("self") + [
       cl("stops_when_the_condition_holds", "gsc_last(self) and gsc_clock(self) == clock()", tags="C05"),
       cl("counter_counts_metaepochs", "self.metaepoch_count - old(self.metaepoch_count) == steps(self) - old(steps(self))", tags="C05"),
       cl("exactly_n_for_metaepoch_limit", "imp(exact_type(self._gsc, 'MetaepochLimit') and "
          "old(self.metaepoch_count) <= cast(self._gsc, 'ref:MetaepochLimit').limit, "
          "self.metaepoch_count == cast(self._gsc, 'ref:MetaepochLimit').limit)", tags="C05"),
       cl("zero_for_dont_run", "imp(exact_type(self._gsc, 'DontRun'), self.metaepoch_count == old(self.metaepoch_count) "
          "and steps(self) == old(steps(self)))", tags="C05"),
   ])
