"""pyhms/tree.py - run / run_step / run_metaepoch / run_sprout (C05, C06, C18) and sprouting seeds interface."""
from pyvc.spec import cl, fn, macro, ghost_fields, fields, trusted
from pyvc_contracts_d10_tree_structure import struct, PREFIX, NEWDEMES, TREE_LISTS, USER_PROBLEM_FRAME

T = "pyhms.tree.DemeTree."
SM = "pyhms.sprout.sprout_mechanisms.SproutMechanism."

ghost_fields(**{"$last_seeds": "dict[ref:AbstractDeme,ref:DemeCandidates]"})
macro("last_seeds", ["t"], 'field(t, "$last_seeds", "dict[ref:AbstractDeme,ref:DemeCandidates]")')
macro("hibernation_on", ["t"], "'hibernation' in t.config.options and t.config.options['hibernation']")
macro("ActiveNonLeaf", ["t", "d"], "InTree(t, d) and d._active and d._level < len(t._levels) - 1")

# ---- the seeds a sprouting round uses (interface between the sprout mechanism and the tree) --------------------
SEEDS_POST = [
    cl("seeds_ok", "SeedsOk(tree, result)", tags="C07 C10"),
    cl("fresh_dict", "fresh(result)"),
    cl("every_entry_has_a_candidate", "forall(lambda k: imp(0 <= k < len(result.keys()), len(result[result.keys()[k]].individuals) > 0), "
       "pat=result.keys()[k])", tags="C18"),
]
fn(SM + "get_seeds", params={"tree": "ref:DemeTree"}, returns="dict[ref:AbstractDeme,ref:DemeCandidates]",
   requires=[cl("s_" + c.label, c.text.replace("self", "tree")) for c in struct("self")] + [cl("problems", "LevelProblemsWf(tree)")],
   modifies=[("_centroid", "True"), ("$list", "kind(o) == 7"), ("weights", "False")],
   ensures=SEEDS_POST + [cl("t_" + c.label, c.text.replace("self", "tree")) for c in struct("self")],
   trusted=True, note="interface contract of the sprouting mechanism towards the tree; get_seeds itself is verified in e-files")

HIB_FRAME = [("_hibernating", "InTree(self, cast(o, 'ref:AbstractDeme'))")]

fn(T + "run_sprout",
   ghost_after={"get_seeds@0": ["setg(self, '$last_seeds', _call_result)"]},
   requires=struct("self") + [cl("problems", "LevelProblemsWf(self)"),
                              cl("mechanism", "self._sprout_mechanism != None")],
   modifies=TREE_LISTS + USER_PROBLEM_FRAME + HIB_FRAME + [("_centroid", "True"), ("$list", "kind(o) == 7")],
   loops={0: dict(index="j", seq_base="anl", modifies=HIB_FRAME, invariant=[
       cl("inv_processed", "forall(lambda q: imp(len(anl) - j <= q and q < len(anl), "
          "anl[q][1]._hibernating == (not (anl[q][1] in deme_seeds))))"),
       cl("inv_seeds", "deme_seeds == last_seeds(self)"),
       cl("inv_awake_new", "forall(lambda l, i: imp(0 <= l < len(self._levels) and old(len(self._levels[l])) <= i and i < len(self._levels[l]), "
          "not self._levels[l][i]._hibernating and self._levels[l][i]._active), pat=self._levels[l][i])")] + struct("self", prefix="inv_") + PREFIX)},
   ensures=struct("self") + PREFIX + [
       cl("created_demes_awake",
          "forall(lambda l, i: imp(0 <= l < len(self._levels) and old(len(self._levels[l])) <= i and i < len(self._levels[l]), "
          "not self._levels[l][i]._hibernating and self._levels[l][i]._active), pat=self._levels[l][i])", tags="C18 C06"),
       cl("participants_sleep_iff_not_sprouted_from",
          "imp(hibernation_on(self), forall(lambda l, i: imp(0 <= l and l < len(self._levels) - 1 and 0 <= i < old(len(self._levels[l])) "
          "and old(self._levels[l][i]._active), "
          "self._levels[l][i]._hibernating == (not (self._levels[l][i] in last_seeds(self)))), pat=self._levels[l][i]))", tags="C18"),
       cl("no_flag_written_when_off", "imp(not hibernation_on(self), forall(lambda d: imp(old(allocated(d)), "
          "d._hibernating == old(d._hibernating)), d='ref:AbstractDeme'))", tags="C18"),
   ])
