"""Field types of the pyhms classes (sidecar typing; also asserted by the run-time monitors)."""
from pyvc.spec import fields, fn, cl, trusted

fields("Individual", genome="g", fitness="fl", problem="ref:Problem", uuid="ref:$uuid", parents="ref:$set")
fields("AbstractDeme", _id="str", _started_at="int", _sprout_seed="ref:Individual", _level="int",
       _config="ref:BaseLevelConfig", _lsc="ref:$LSC", _problem="xref:EvalCountingProblem", _bounds="arr:B",
       _active="bool", _centroid="og", _history="list[list[list[ref:Individual]]]",
       _children="list[ref:AbstractDeme]", _logger="ref:$Logger", _hibernating="bool")
fields("DemeInitArgs", id="str", level="int", config="ref:BaseLevelConfig", logger="ref:$Logger", started_at="int",
       sprout_seed="ref:Individual", random_seed="oint", parent_deme="ref:AbstractDeme")
fields("DemeTree", metaepoch_count="int", config="ref:TreeConfig", _gsc="ref:$GSC",
       _sprout_mechanism="ref:SproutMechanism", _logger="ref:$Logger", _random_seed="oint",
       _levels="list[list[ref:AbstractDeme]]")
fields("TreeConfig", levels="list[ref:BaseLevelConfig]", gsc="ref:$GSC", sprout_mechanism="ref:SproutMechanism",
       options="rec", config_class_to_deme_class="ref:$ClassMap")
fields("BaseLevelConfig", problem="ref:Problem", lsc="ref:$LSC")
fields("$rec", hibernation="bool", random_seed="oint", log_level="ref:$LogLevel", maxiter="int")
fields("LocalDeme", _n_evals="int", _method="str", _run_history="list[ref:Individual]", _options="rec")
fields("DemeCandidates", individuals="list[ref:Individual]", features="ref:DemeFeatures")
fields("DemeFeatures", nbc_mean_distance="fl")

trusted("sidecar field and parameter types (contracts/c10_structs.py) are trusted; the run-time monitors assert them")
