"""pyhms/tree.py, demes/initialize.py - the structure of the deme tree (C07), sprouting (C07, C08, C18)."""
from pyvc.spec import cl, fn, macro, opaque, ghost_fields, fields, trusted
from pyvc_contracts_c20_individual import chain_frame

T = "pyhms.tree.DemeTree."

# ghost ownership / position fields (written by ghost statements attached to the real statements)
ghost_fields(**{"$owner": "ref", "$lvl": "int", "$lidx": "int", "$parent": "ref:AbstractDeme", "$cidx": "int",
                "$sidx": "int", "$wowner": "ref"})
macro("wowner", ["w"], 'field(w, "$wowner", "ref")')        # the deme that owns a counting wrapper (None for user problems)
macro("sidx", ["d"], 'field(d, "$sidx", "int")')            # index of a deme's seed in its parent's candidate list
macro("kind", ["x"], 'field(x, "$kind", "int")')          # 1 level list, 2 children list, 3 history list
macro("owner", ["x"], 'field(x, "$owner", "ref")')
macro("lvl", ["x"], 'field(x, "$lvl", "int")')
macro("lidx", ["d"], 'field(d, "$lidx", "int")')            # index of a deme in its level list
macro("parent_of", ["d"], 'field(d, "$parent", "ref:AbstractDeme")')
macro("cidx", ["d"], 'field(d, "$cidx", "int")')            # index of a deme in its parent's children

macro("mk_id", ["pid", "n"], 'ite(pid == strlit("root"), str_of_int(n), strcat(pid, strcat(strlit("/"), str_of_int(n))))')

macro("S_levels", ["t"], """
    t._levels != None and t.config != None and t.config.levels != None
    and len(t._levels) == len(t.config.levels) and len(t._levels) >= 1
    and kind(t._levels) == 4 and owner(t._levels) == t and kind(t.config.levels) == 0
    and forall(lambda l: imp(0 <= l < len(t._levels), t._levels[l] != None and kind(t._levels[l]) == 1
                              and owner(t._levels[l]) == t and lvl(t._levels[l]) == l and t.config.levels[l] != None
                              and t.config.levels[l].lsc != None),
               pats=[t._levels[l], t.config.levels[l]])
""")
macro("DemeOk", ["t", "l", "i", "d"], """
    d != None and d._level == l and lidx(d) == i
    and d._children != None and kind(d._children) == 2 and owner(d._children) == d
    and d._history != None and kind(d._history) == 3 and owner(d._history) == d
    and d._problem != None and 0 <= d._started_at and d._started_at <= t.metaepoch_count
    and id_depth(d._id) == l and type_id(d) == deme_class_of(type_id(t.config.levels[l]))
    and HistShape(d) and wowner(d._problem) == d and d._lsc != None
    and d._problem._inner == t.config.levels[l].problem and inner(d._problem) == inner(t.config.levels[l].problem)
    and imp(d._active, not field(d, "$engine_stop", "bool"))
    and imp(d._active, len(cur_pop(d)) >= 1 and kind(cur_pop(d)) != 10)
    and imp(d._active, ClassInv(d))
""")
macro("S_deme", ["t"], """
    forall(lambda l, i: imp(0 <= l < len(t._levels) and 0 <= i < len(t._levels[l]), DemeOk(t, l, i, t._levels[l][i])),
           pat=t._levels[l][i])
""")
macro("S_root", ["t"], 'len(t._levels[0]) == 1 and t._levels[0][0]._id == strlit("root")')
macro("ParentInTree", ["t", "l", "i", "d", "p"], """
    p != None and p._level == l - 1 and 0 <= lidx(p) and lidx(p) < len(t._levels[l - 1]) and t._levels[l - 1][lidx(p)] == p
""")
macro("ParentListsChild", ["t", "l", "i", "d", "p"], """
    0 <= cidx(d) and cidx(d) < len(p._children) and p._children[cidx(d)] == d
""")
macro("ParentIdTime", ["t", "l", "i", "d", "p"], """
    d._started_at >= p._started_at and d._id == mk_id(p._id, i)
""")
macro("S_parent", ["t"], """
    forall(lambda l, i: imp(1 <= l and l < len(t._levels) and 0 <= i < len(t._levels[l]),
                            ParentInTree(t, l, i, t._levels[l][i], parent_of(t._levels[l][i]))), pat=t._levels[l][i])
""")
macro("S_parent2", ["t"], """
    forall(lambda l, i: imp(1 <= l and l < len(t._levels) and 0 <= i < len(t._levels[l]),
                            ParentListsChild(t, l, i, t._levels[l][i], parent_of(t._levels[l][i]))), pat=t._levels[l][i])
""")
macro("S_parent3", ["t"], """
    forall(lambda l, i: imp(1 <= l and l < len(t._levels) and 0 <= i < len(t._levels[l]),
                            ParentIdTime(t, l, i, t._levels[l][i], parent_of(t._levels[l][i]))), pat=t._levels[l][i])
""")
macro("ChildOk", ["t", "l", "d", "k", "c"], """
    c != None and c._level == l + 1 and l + 1 < len(t._levels)
""")
macro("ChildPlaced", ["t", "l", "d", "k", "c"], """
    0 <= lidx(c) and lidx(c) < len(t._levels[l + 1]) and t._levels[l + 1][lidx(c)] == c
""")
macro("S_child3", ["t"], """
    forall(lambda l, i, k: imp(0 <= l < len(t._levels) and 0 <= i < len(t._levels[l]) and 0 <= k < len(t._levels[l][i]._children),
                               ChildPlaced(t, l, t._levels[l][i], k, t._levels[l][i]._children[k])),
           pat=t._levels[l][i]._children[k])
""")
macro("ChildBack", ["t", "l", "d", "k", "c"], "parent_of(c) == d and cidx(c) == k")
macro("S_child2", ["t"], """
    forall(lambda l, i, k: imp(0 <= l < len(t._levels) and 0 <= i < len(t._levels[l]) and 0 <= k < len(t._levels[l][i]._children),
                               ChildBack(t, l, t._levels[l][i], k, t._levels[l][i]._children[k])),
           pat=t._levels[l][i]._children[k])
""")
macro("S_child", ["t"], """
    forall(lambda l, i, k: imp(0 <= l < len(t._levels) and 0 <= i < len(t._levels[l]) and 0 <= k < len(t._levels[l][i]._children),
                               ChildOk(t, l, t._levels[l][i], k, t._levels[l][i]._children[k])),
           pat=t._levels[l][i]._children[k])
""")
macro("InTree", ["t", "d"], """
    d != None and 0 <= d._level and d._level < len(t._levels) and 0 <= lidx(d) and lidx(d) < len(t._levels[d._level])
    and t._levels[d._level][lidx(d)] == d
""")
STRUCT = [("levels", "S_levels({t})"), ("demes", "S_deme({t})"), ("root", "S_root({t})"),
          ("parents", "S_parent({t})"), ("parents_list_child", "S_parent2({t})"), ("parents_id_time", "S_parent3({t})"),
          ("children", "S_child({t})"), ("children_placed", "S_child3({t})"), ("children_back", "S_child2({t})")]


def struct(t, tags="C07", prefix="struct_"):
    return [cl(prefix + n, e.format(t=t), tags) for n, e in STRUCT]


# what a freshly constructed deme looks like (postcondition of every deme constructor)
macro("DemeFresh", ["r", "cfg", "id_", "level", "started", "seed"], """
    r != None and r._id == id_ and r._level == level and r._started_at == started and r._sprout_seed == seed
    and r._config == cfg and r._lsc == cfg.lsc and r._active and not r._hibernating and not field(r, "$engine_stop", "bool")
    and r._children != None and fresh(r._children) and len(r._children) == 0 and kind(r._children) == 2 and owner(r._children) == r
    and r._history != None and fresh(r._history) and kind(r._history) == 3 and owner(r._history) == r and len(r._history) == 1
    and HistShape(r) and is_none(r._centroid) and len(cur_pop(r)) >= 1 and kind(cur_pop(r)) != 10 and ClassInv(r)
    and r._problem != None and fresh(r._problem) and r._problem._inner == cfg.problem and r._problem._n_evals >= 0
    and wowner(r._problem) == r and inner(r._problem) == inner(cfg.problem)
""")

fn("ext.$DemeCtor.__call__", abstract=True, params={"deme_init_args": "ref:DemeInitArgs"}, returns="ref:AbstractDeme",
   fresh_result=True,
   requires=[cl("args", "deme_init_args != None and deme_init_args.config != None and WfProblem(deme_init_args.config.problem)")],
   modifies=chain_frame("deme_init_args.config.problem"),
   ensures=[cl("fresh_deme", "DemeFresh(result, deme_init_args.config, deme_init_args.id, deme_init_args.level, "
               "deme_init_args.started_at, deme_init_args.sprout_seed)", tags="C07 C06 C18")],
   note="abstract deme constructor: every shipped deme class is proved (or, for the numeric part, assumed) to refine it")

fn("pyhms.demes.initialize.init_from_config",
   params={"config": "ref:BaseLevelConfig", "new_id": "str", "target_level": "int", "metaepoch_count": "int",
           "sprout_seed": "ref:Individual", "logger": "ref:$Logger", "random_seed": "oint", "parent_deme": "ref:AbstractDeme",
           "config_class_to_deme_class": "ref:$ClassMap"},
   returns="ref:AbstractDeme", fresh_result=True,
   requires=[cl("args", "config != None and WfProblem(config.problem)")],
   modifies=chain_frame("config.problem"),
   ensures=[cl("fresh_deme", "DemeFresh(result, config, new_id, target_level, metaepoch_count, sprout_seed)", tags="C07 C06 C18"),
            cl("class_from_table", "type_id(result) == deme_class_of(type_id(config))", tags="C07"),
            cl("builtin_table", "deme_class_of(class_id('EALevelConfig')) == class_id('EADeme') and "
               "deme_class_of(class_id('DELevelConfig')) == class_id('DEDeme') and "
               "deme_class_of(class_id('SHADELevelConfig')) == class_id('SHADEDeme') and "
               "deme_class_of(class_id('CMALevelConfig')) == class_id('CMADeme') and "
               "deme_class_of(class_id('LocalOptimizationConfig')) == class_id('LocalDeme') and "
               "deme_class_of(class_id('LHSLevelConfig')) == class_id('LHSDeme') and "
               "deme_class_of(class_id('SobolLevelConfig')) == class_id('SobolDeme')", tags="C07")])

fn(T + "_next_child_id", params={"deme": "ref:AbstractDeme"}, returns="str", pure=True,
   requires=[cl("levels", "S_levels(self)"), cl("deme", "deme != None and 0 <= deme._level")],
   ensures=[cl("not_a_leaf", "deme._level < len(self._levels) - 1", tags="C07"),
            cl("id_from_parent_and_level_size", "result == mk_id(deme._id, len(self._levels[deme._level + 1]))", tags="C07")],
   raises=[cl("only_for_leaves", "deme._level >= len(self._levels) - 1", tags="C07")])

# ---- sprouting ----------------------------------------------------------------------------------
macro("LevelProblemsWf", ["t"], """
    forall(lambda l: imp(0 <= l < len(t.config.levels), WfProblem(t.config.levels[l].problem)
                          and forall(lambda o: imp(in_chain(t.config.levels[l].problem, o), wowner(o) == None), o="ref:Problem",
                                     pat=in_chain(t.config.levels[l].problem, o))))
""")
# the problem objects an evaluation through a *new* deme may touch: user-supplied stacks, never another deme's own wrapper
USER_PROBLEM_FRAME = [(f, "instance_of(o, 'Problem') and wowner(o) == None")
                      for f in ("_n_evals", "hit_precision", "ETA", "$refused", "$ncalls")] + [("$clock", "o == None")] + \
                     [("$list<fl>", "kind(o) == 9")]
macro("SeedsOk", ["t", "s"], """
    s != None and forall(lambda k: imp(0 <= k < len(s.keys()),
        InTree(t, s.keys()[k]) and s.keys()[k]._level + 1 < len(t._levels)
        and s[s.keys()[k]] != None and s[s.keys()[k]].individuals != None
        and kind(s[s.keys()[k]].individuals) == 0), pat=s.keys()[k])
""")
# lists of the tree structure that sprouting extends
TREE_LISTS = [("$list<ref:AbstractDeme>", "(kind(o) == 1 and owner(o) == self) or kind(o) == 2")]


def level_chain_frames(t):
    from pyvc_contracts_b10_problem import CHAIN_FRAME
    out = []
    for f, c in CHAIN_FRAME:
        c2 = c.replace("self", "P_")
        out.append((f, f"exists(lambda l_: 0 <= l_ and l_ < len({t}.config.levels) and ({c2.replace('P_', '(' + t + '.config.levels[l_].problem)')}))"))
    return out


PREFIX = [cl("levels_only_grow", "forall(lambda l: imp(0 <= l < len(self._levels), "
             "len(self._levels[l]) >= old(len(self._levels[l])) and self._levels[l] == old(self._levels[l])), pat=self._levels[l])", tags="C07 C06"),
          cl("old_demes_stay", "forall(lambda l, i: imp(0 <= l < len(self._levels) and 0 <= i < old(len(self._levels[l])), "
             "self._levels[l][i] == old(self._levels[l][i])), pat=self._levels[l][i])", tags="C07 C06")]
NEWDEMES = [cl("new_demes_active_awake",
               "forall(lambda l, i: imp(0 <= l < len(self._levels) and old(len(self._levels[l])) <= i and i < len(self._levels[l]), "
               "self._levels[l][i]._active and not self._levels[l][i]._hibernating), pat=self._levels[l][i])", tags="C06 C18"),
            cl("new_demes_start_now",
               "forall(lambda l, i: imp(0 <= l < len(self._levels) and old(len(self._levels[l])) <= i and i < len(self._levels[l]), "
               "self._levels[l][i]._started_at == self.metaepoch_count), pat=self._levels[l][i])", tags="C06 C07"),
            cl("new_demes_unrun",
               "forall(lambda l, i: imp(0 <= l < len(self._levels) and old(len(self._levels[l])) <= i and i < len(self._levels[l]), "
               "len(self._levels[l][i]._history) == 1), pat=self._levels[l][i])", tags="C06 C07"),
            cl("no_new_root", "len(self._levels[0]) == old(len(self._levels[0]))", tags="C07"),
            cl("new_demes_seeded_from_a_candidate_of_their_parent",
               "forall(lambda l, i: imp(0 <= l < len(self._levels) and old(len(self._levels[l])) <= i and i < len(self._levels[l]), "
               "parent_of(self._levels[l][i]) in deme_seeds and 0 <= sidx(self._levels[l][i]) "
               "and sidx(self._levels[l][i]) < len(deme_seeds[parent_of(self._levels[l][i])].individuals) "
               "and self._levels[l][i]._sprout_seed == "
               "deme_seeds[parent_of(self._levels[l][i])].individuals[sidx(self._levels[l][i])]), pat=self._levels[l][i])", tags="C07")]
UNCHANGED = [cl("count_unchanged", "self.metaepoch_count == old(self.metaepoch_count)"),
             cl("seeds_ok", "SeedsOk(self, deme_seeds)"), cl("problems_wf", "LevelProblemsWf(self)")]
CUR = [cl("current_parent", "deme in deme_seeds and InTree(self, deme) and target_level == deme._level + 1 "
          "and target_level < len(self._levels) and deme_candidates == deme_seeds[deme] and deme_candidates != None "
          "and deme_candidates.individuals != None")]
# proof hints for the body of the inner loop: what one sprout changes, relative to the state at the top of the iteration
HINTS = [
    cl("h_levels_list_same", "self._levels == at_head(self._levels) and len(self._levels) == at_head(len(self._levels)) and "
       "forall(lambda l: imp(0 <= l < len(self._levels), self._levels[l] == at_head(self._levels[l])), pat=self._levels[l])"),
    cl("h_level_items_kept", "forall(lambda l, i: imp(0 <= l < len(self._levels) and 0 <= i < at_head(len(self._levels[l])), "
       "self._levels[l][i] == at_head(self._levels[l][i]) and allocated(self._levels[l][i])), pat=self._levels[l][i])"),
    cl("h_level_lengths", "forall(lambda l: imp(0 <= l < len(self._levels), "
       "len(self._levels[l]) == at_head(len(self._levels[l])) + ite(l == target_level, 1, 0)), pat=self._levels[l])", tags="C08 C07"),
    cl("h_new_element", "self._levels[target_level][at_head(len(self._levels[target_level]))] == child and not at_head(allocated(child))"),
    cl("h_children_lists", "forall(lambda l, i: imp(0 <= l < len(self._levels) and 0 <= i < at_head(len(self._levels[l])), "
       "self._levels[l][i]._children == at_head(self._levels[l][i]._children) and "
       "len(self._levels[l][i]._children) == at_head(len(self._levels[l][i]._children)) + ite(self._levels[l][i] == deme, 1, 0)), "
       "pat=self._levels[l][i])"),
    cl("h_children_items_kept", "forall(lambda l, i, k: imp(0 <= l < len(self._levels) and 0 <= i < at_head(len(self._levels[l])) "
       "and 0 <= k < at_head(len(self._levels[l][i]._children)), "
       "self._levels[l][i]._children[k] == at_head(self._levels[l][i]._children[k]) and at_head(allocated(self._levels[l][i]._children[k]))), "
       "pat=self._levels[l][i]._children[k])"),
    cl("h_new_child_entry", "deme._children[at_head(len(deme._children))] == child"),
    cl("h_ghost_of_old_demes", "forall(lambda d: imp(at_head(allocated(d)), lidx(d) == at_head(lidx(d)) and parent_of(d) == at_head(parent_of(d)) "
       "and cidx(d) == at_head(cidx(d)) and sidx(d) == at_head(sidx(d))), d='ref:AbstractDeme')"),
    cl("h_histories_kept", "forall(lambda l, i: imp(0 <= l < len(self._levels) and 0 <= i < at_head(len(self._levels[l])), "
       "len(self._levels[l][i]._history) == at_head(len(self._levels[l][i]._history))), pat=self._levels[l][i])"),
    cl("h_candidates_kept", "forall(lambda k: imp(0 <= k < len(deme_seeds.keys()), "
       "len(deme_seeds[deme_seeds.keys()[k]].individuals) == at_head(len(deme_seeds[deme_seeds.keys()[k]].individuals)) and "
       "forall(lambda j: imp(0 <= j < len(deme_seeds[deme_seeds.keys()[k]].individuals), "
       "deme_seeds[deme_seeds.keys()[k]].individuals[j] == at_head(deme_seeds[deme_seeds.keys()[k]].individuals[j])))), "
       "pat=deme_seeds.keys()[k])"),
    cl("h_earlier_new_demes_unrun", "forall(lambda l, i: imp(0 <= l < len(self._levels) and old(len(self._levels[l])) <= i "
       "and i < at_head(len(self._levels[l])), at_head(len(self._levels[l][i]._history)) == 1), pat=self._levels[l][i])"),
    cl("h_child_fresh_state", "len(child._history) == 1 and child._active and not child._hibernating "
       "and child._started_at == self.metaepoch_count and child._sprout_seed == ind"),
    cl("h_ghost_of_child", "lidx(child) == at_head(len(self._levels[target_level])) and parent_of(child) == deme "
       "and cidx(child) == at_head(len(deme._children)) and sidx(child) == at_head(b)"),
]
INV = None

trusted("LevelProblemsWf is opaque and state-independent: it reads the user's level list (never written by pyhms) and the ghost "
        "owner of user problem objects (ghost owners are only ever set on freshly created deme wrappers)")

fn(T + "_do_sprout", params={"deme_seeds": "dict[ref:AbstractDeme,ref:DemeCandidates]"},
   requires=struct("self") + [cl("seeds", "SeedsOk(self, deme_seeds)"), cl("problems", "LevelProblemsWf(self)")],
   modifies=TREE_LISTS + USER_PROBLEM_FRAME,
   loops={0: dict(index="a", invariant=struct("self", prefix="inv_") + PREFIX + NEWDEMES + UNCHANGED),
          1: dict(index="b", invariant=struct("self", prefix="inv_") + PREFIX + NEWDEMES + UNCHANGED + CUR, hints=HINTS)},
   ghost_after={"init_from_config@0": ["setg(_call_result, '$sidx', b)"],
                "add_child@0": ["setg(child, '$parent', deme)", "setg(child, '$cidx', len(deme._children) - 1)"],
                "append@0": ["setg(child, '$lidx', len(self._levels[target_level]) - 1)"]},
   ensures=struct("self") + PREFIX + NEWDEMES)
