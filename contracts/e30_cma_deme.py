"""pyhms/demes/cma_deme.py - one metaepoch of the CMA-ES deme (C05, C06, C11, C12, C13, C03) against the abstract deme contract."""
from pyvc.spec import cl, fn, macro, fields, refine, specfn
from pyvc_contracts_d10_tree_structure import USER_PROBLEM_FRAME
from pyvc_contracts_d20_tree_run import OWN_FRAME
from pyvc_contracts_e10_demes import deme_loop_invariants, PREV

D = "pyhms.demes."
A = D + "abstract_deme.AbstractDeme."

# ---- the third-party optimiser (cma.CMAEvolutionStrategy): interface contract --------------------------------------
specfn("cma_lambda", ["ref"], "int")       # the strategy's constant population size
fn("ext.$CMAES.tell", params={"solutions": "list[g]", "function_values": "list[fl]"},
   requires=[cl("one_value_per_solution", "len(solutions) == len(function_values)")],
   modifies=[("$cma_told", "o == self")], trusted=True,
   note="cma: tell(X, f) updates the strategy's internal state only")
fn("ext.$CMAES.ask", returns="list[g]", fresh_result=True, modifies=[("$cma_asked", "o == self")], trusted=True,
   ensures=[cl("lambda_candidates", "len(result) == cma_lambda(self) and cma_lambda(self) >= 1", tags="C12")],
   note="cma: ask() returns lambda new candidate solutions (lambda is fixed at construction)")
fn("ext.$CMAES.stop", returns="bool", modifies=[], trusted=True,
   note="cma: stop() evaluates the termination criteria; the dictionary it returns is used for its truth value only")

macro("CmaDeme", ["d"], """
    PopOf(d._problem, cur_pop(d)) and WfProblem(d._problem) and d._cma_es != None and d.generations >= 1
    and len(cur_pop(d)) == cma_lambda(d._cma_es)
""")

GENS, CNT = "metaepoch_generations", "epoch_counter"
prev = PREV.format(c=CNT, g=GENS)
refine(D + "cma_deme.CMADeme.run_metaepoch", A + "run_metaepoch",
       locals={GENS: "list[list[ref:Individual]]", "genomes": "list[g]", "values": "list[fl]"},
       modifies=OWN_FRAME + USER_PROBLEM_FRAME,
       ghost_after={"stop@0": ["setg(self, '$engine_stop', _call_result)"], "stop@1": ["setg(self, '$engine_stop', _call_result)"]},
       loops={0: dict(invariant=deme_loop_invariants(GENS, CNT, "self.generations") + [
                  cl("inv_direction", "sign == ite(dirmax(inner(self._problem)), -1.0, 1.0)", tags="C13"),
                  cl("inv_told_next", f"len(genomes) == len({prev}) and len(values) == len({prev}) and "
                     f"forall(lambda q: imp(0 <= q < len({prev}), genomes[q] == {prev}[q].genome and same(values[q], sign * {prev}[q].fitness)))",
                     tags="C11 C13"),
                  cl("inv_lambda", f"forall(lambda g: imp(0 <= g < len({GENS}), len({GENS}[g]) == cma_lambda(self._cma_es)), pat={GENS}[g]) "
                     "and self._cma_es != None and self.generations >= 1 and len(old(cur_pop(self))) == cma_lambda(self._cma_es)", tags="C12")]),
              1: dict(index="k", acc="offspring", acc_type="list[ref:Individual]", modifies=[], local_frame=[], invariant=[
                  cl("inv_new", "len(offspring) == k and fresh(offspring)"),
                  cl("inv_unevaluated", "forall(lambda a: imp(0 <= a < k, offspring[a] != None and fresh(offspring[a]) "
                     "and offspring[a].problem == self._problem and needs_eval(offspring[a])), pat=offspring[a])")])},
       calls={"$CMAES.tell": [
           cl("told_the_previous_generation", f"len(arg0) == len({prev}) and len(arg1) == len({prev}) and "
              f"forall(lambda q: imp(0 <= q < len({prev}), arg0[q] == {prev}[q].genome))", tags="C11"),
           cl("told_fitness_in_the_descent_direction", f"forall(lambda q: imp(0 <= q < len({prev}), "
              f"same(arg1[q], ite(dirmax(inner(self._problem)), -1.0, 1.0) * {prev}[q].fitness)))", tags="C13"),
           cl("no_generation_after_the_stop_condition_was_seen",
              f"imp({CNT} > 0, not gsc_last(tree) and gsc_clock(tree) == clock())", tags="C05")]},
       ensures=[cl("population_kept", "CmaDeme(self)", tags="C02 C03 C12"),
                cl("at_most_the_configured_generations", "len(self._history[-1]) <= self.generations and len(self._history[-1]) >= 1", tags="C05 C06"),
                cl("constant_population_size", "forall(lambda g: imp(0 <= g < len(self._history[-1]), "
                   "len(self._history[-1][g]) == cma_lambda(self._cma_es)), pat=self._history[-1][g])", tags="C12")])
