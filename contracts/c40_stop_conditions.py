"""pyhms/stop_conditions - verdicts (C03, C05, C06)."""
from pyvc.spec import cl, fn, macro, refine, fields, specfn

fields("MetaepochLimit", limit="int")
fields("SingularProblemEvalLimitReached", limit="int")
fields("SingularProblemPrecisionReached", problem="ref:PrecisionCutoffProblem")
fields("NoActiveNonrootDemes", n_metaepochs="int")
fields("FitnessSteadiness", max_deviation="fl", n_metaepochs="int")
fields("FitnessEvalLimitReached", limit="int")

# spec-level views of the tree (written from the property statements)
macro("tree_demes", ["t"], "[d for lv in t._levels for d in lv]")
macro("tree_evals", ["t"], "sum(counted(d) for lv in t._levels for d in lv)")
macro("level_evals", ["lv"], "sum(counted(d) for d in lv)")
macro("TreeShape", ["t"], """
    t != None and t._levels != None and len(t._levels) >= 1
    and forall(lambda l: imp(0 <= l < len(t._levels), t._levels[l] != None))
    and forall(lambda l, i: imp(0 <= l < len(t._levels) and 0 <= i < len(t._levels[l]),
                                t._levels[l][i] != None and t._levels[l][i]._problem != None
                                and t._levels[l][i]._history != None and t._levels[l][i]._children != None))
    and len(t._levels[0]) >= 1
""")

# ---- abstract stop conditions (user-defined ones are assumed to satisfy these) -------------------
fn("ext.$GSC.__call__", abstract=True, params={"tree": "ref:DemeTree"}, returns="bool",
   requires=[cl("tree_shape", "TreeShape(tree)")],
   modifies=[("weights", "o == self")],
   note="a global stop condition only looks at the tree: it modifies nothing but its own private cache")
fn("ext.$LSC.__call__", abstract=True, params={"deme": "ref:AbstractDeme"}, returns="bool",
   requires=[cl("deme", "deme != None and deme._history != None and deme._children != None")],
   modifies=[],
   note="a local stop condition is a pure verdict")

G = "pyhms.stop_conditions.gsc."
U = "pyhms.stop_conditions.usc."
L = "pyhms.stop_conditions.lsc."

refine(G + "RootStopped.__call__", "ext.$GSC.__call__", modifies=[],
       ensures=[cl("verdict", "result == (not tree._levels[0][0]._active)", tags="C05")])
refine(G + "AllStopped.__call__", "ext.$GSC.__call__", modifies=[],
       ensures=[cl("verdict", "result == forall(lambda l, i: imp(0 <= l < len(tree._levels) and 0 <= i < len(tree._levels[l]), "
                   "not tree._levels[l][i]._active))", tags="C05")])
refine(G + "SingularProblemEvalLimitReached.__call__", "ext.$GSC.__call__", modifies=[],
       ensures=[cl("verdict", "result == (tree_evals(tree) >= self.limit)", tags="C03 C05")])
refine(G + "SingularProblemPrecisionReached.__call__", "ext.$GSC.__call__", modifies=[],
       requires=[cl("has_problem", "self.problem != None")],
       ensures=[cl("verdict", "result == self.problem.hit_precision", tags="C05 C16")])
refine(U + "MetaepochLimit.__call__#gsc", "ext.$GSC.__call__", params={"obj": "ref:DemeTree"}, modifies=[],
       ensures=[cl("verdict", "result == (tree.metaepoch_count >= self.limit)", tags="C05")])
refine(U + "MetaepochLimit.__call__#lsc", "ext.$LSC.__call__", params={"obj": "ref:AbstractDeme"},
       ensures=[cl("verdict", "result == (len(deme._history) - 1 >= self.limit)", tags="C06")])
refine(U + "DontStop.__call__#gsc", "ext.$GSC.__call__", params={"_": "ref:DemeTree"}, modifies=[],
       ensures=[cl("verdict", "not result", tags="C05")])
refine(U + "DontRun.__call__#gsc", "ext.$GSC.__call__", params={"_": "ref:DemeTree"}, modifies=[],
       ensures=[cl("verdict", "result", tags="C05")])
refine(U + "DontStop.__call__#lsc", "ext.$LSC.__call__", params={"_": "ref:AbstractDeme"},
       ensures=[cl("verdict", "not result", tags="C06")])
refine(U + "DontRun.__call__#lsc", "ext.$LSC.__call__", params={"_": "ref:AbstractDeme"},
       ensures=[cl("verdict", "result", tags="C06")])
refine(L + "AllChildrenStopped.__call__", "ext.$LSC.__call__",
       ensures=[cl("verdict", "result == (len(deme._children) > 0 and forall(lambda i: imp(0 <= i < len(deme._children), "
                   "not deme._children[i]._active)))", tags="C06")])

# a non-root deme that has been idle for more than n metaepochs (written from the class' documentation)
macro("IdleFor", ["d", "step", "n"], "not d._active and step > d._started_at + (len(d._history) - 1) + n")
refine(G + "NoActiveNonrootDemes.__call__", "ext.$GSC.__call__", modifies=[],
       loops={0: dict(index="a", invariant=[
                  cl("inv_levels_before", "forall(lambda l: imp(1 <= l < 1 + a, len(tree._levels[l]) > 0 and "
                     "forall(lambda i: imp(0 <= i < len(tree._levels[l]), IdleFor(tree._levels[l][i], tree.metaepoch_count, self.n_metaepochs)), "
                     "pat=tree._levels[l][i])), pat=tree._levels[l])"),
                  cl("inv_step", "step == tree.metaepoch_count")]),
              1: dict(index="b", invariant=[
                  cl("inv_levels_before", "forall(lambda l: imp(1 <= l < 1 + a, len(tree._levels[l]) > 0 and "
                     "forall(lambda i: imp(0 <= i < len(tree._levels[l]), IdleFor(tree._levels[l][i], tree.metaepoch_count, self.n_metaepochs)), "
                     "pat=tree._levels[l][i])), pat=tree._levels[l])"),
                  cl("inv_step", "step == tree.metaepoch_count and level_no == 1 + a and 1 <= level_no < len(tree._levels) "
                     "and len(tree._levels[level_no]) > 0"),
                  cl("inv_demes_before", "forall(lambda i: imp(0 <= i < b, IdleFor(tree._levels[level_no][i], step, self.n_metaepochs)), "
                     "pat=tree._levels[level_no][i])")])},
       ensures=[cl("verdict", "result == forall(lambda l: imp(1 <= l < len(tree._levels), len(tree._levels[l]) > 0 and "
                   "forall(lambda i: imp(0 <= i < len(tree._levels[l]), IdleFor(tree._levels[l][i], tree.metaepoch_count, self.n_metaepochs)), "
                   "pat=tree._levels[l][i])), pat=tree._levels[l])", tags="C05")])
