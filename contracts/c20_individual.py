"""pyhms/core/individual.py - ordering (C04, C13), evaluation (C02, C03)."""
from pyvc.spec import cl, fn, macro, specfn, trusted
from pyvc_contracts_b10_problem import CHAIN_FRAME

I = "pyhms.core.individual.Individual."

specfn("nan_choice", ["ref", "ref"], "bool")
# the strict order "a is worse than b" on individuals, as the problem's direction defines it
macro("ind_lt", ["a", "b"], """
    ite(b == None, False,
        ite(is_nan(a.fitness), ite(is_nan(b.fitness), nan_choice(a, b), True),
            ite(is_nan(b.fitness), False, worse(inner(a.problem), a.fitness, b.fitness))))
""")
macro("ind_eq", ["a", "b"], "ite(b == None, False, fl(a.fitness) == fl(b.fitness))")
macro("evaluated", ["x"], "is_num(x.fitness)")
macro("needs_eval", ["x"], "is_none(x.fitness) or is_nan(x.fitness)")
trusted("comparing two individuals that both carry NaN fitness (random.choice in worse_than) is modelled by an unknown "
        "but fixed choice; all properties are stated for evaluated individuals")


def chain_frame(p):
    return [(f, c.replace("self", "(" + p + ")")) for f, c in CHAIN_FRAME]


fn(I + "__lt__", params={"other": "ref:Individual"}, returns="bool", value="ind_lt(self, other)",
   requires=[cl("wf", "WfProblem(self.problem)")],
   ensures=[cl("order", "imp(other == None or ((is_num(self.fitness) or is_nan(self.fitness)) and (is_num(other.fitness) or is_nan(other.fitness)) "
               "and not (is_nan(self.fitness) and is_nan(other.fitness))), result == ind_lt(self, other))",
               tags="C04 C13"),
            cl("direction_aware", "imp(other != None and is_num(self.fitness) and is_num(other.fitness), "
               "result == worse(inner(self.problem), self.fitness, other.fitness))", tags="C04 C13")])

fn(I + "__eq__", params={"other": "ref:Individual"}, returns="bool", value="ind_eq(self, other)")

fn(I + "evaluate", returns="ref:Individual",
   requires=[cl("wf", "WfProblem(self.problem)")],
   modifies=chain_frame("self.problem") + [("fitness", "o == self")],
   ensures=[cl("returns_self", "result == self"),
            cl("evaluates_when_needed",
               "imp(old(needs_eval(self)), Transparent(self.problem, self.genome, self.fitness, "
               "old(ncalls(inner(self.problem))), ncalls(inner(self.problem))))", tags="C02 C03"),
            cl("keeps_otherwise", "imp(not old(needs_eval(self)), same(self.fitness, old(self.fitness)) and "
               "ncalls(inner(self.problem)) == old(ncalls(inner(self.problem))))", tags="C02 C03"),
            cl("now_evaluated", "imp(old(needs_eval(self)), evaluated(self))", tags="C02"),
            cl("counted", "imp(instance_of(self.problem, 'EvalCountingProblem'), "
               "cast(self.problem, 'ref:EvalCountingProblem')._n_evals - old(cast(self.problem, 'ref:EvalCountingProblem')._n_evals) "
               ">= clock() - old(clock())) and clock() >= old(clock())", tags="C03")])
