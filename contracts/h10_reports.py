"""pyhms/utils/print_tree.py, DemeTree.tree/summary - C20 (reports agree with the tree; looking does not change it)."""
from pyvc.spec import cl, fn, macro, specfn, trusted

PT = "pyhms.utils.print_tree."
T = "pyhms.tree.DemeTree."
specfn("fmt_array", ["g"], "str")      # format_array(genome): the characters are not modelled, the interpolated value is

fn(PT + "format_array", params={"solution": "g", "float_format": "str"}, returns="str", value="fmt_array(solution)", trusted=True,
   note="string formatting of a genome (characters not modelled)")

macro("part", ["s", "k"], "str_head(str_tail_n(s, k))")
fn(PT + "format_deme", params={"deme": "ref:AbstractDeme", "best_fitness": "fl"}, returns="str", pure=True,
   requires=[cl("deme", "deme != None and deme._history != None and deme._problem != None and deme.best_individual != None")],
   ensures=[cl("marker_iff_best_equals_global_best",
               "part(result, 3) == ite(not is_none(best_fitness) and fl(deme.best_individual.fitness) == fl(best_fitness), "
               "strlit(' *** '), strlit(' '))", tags="C20"),
            cl("carries_the_demes_evaluation_count", "part(result, 7) == strcat(strlit('evals: '), str_of_int(counted(deme)))", tags="C20 C03"),
            cl("shows_the_demes_own_best", "part(result, 4) == strcat(strlit('f'), strcat(fmt_array(deme.best_individual.genome), "
               "strcat(strlit(' ~= '), str_fl('.2e', deme.best_individual.fitness))))", tags="C20 C04"),
            cl("root_or_id", "part(result, 2) == ite(deme._sprout_seed == None, strlit('root'), deme._id)", tags="C20 C07")])
