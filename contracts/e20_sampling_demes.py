"""pyhms/demes/lhs_deme.py, sobol_deme.py - one sample per metaepoch (C05, C06, C03, C02) against the abstract deme contract."""
from pyvc.spec import cl, fn, macro, fields, refine
from pyvc_contracts_c20_individual import chain_frame
from pyvc_contracts_d10_tree_structure import USER_PROBLEM_FRAME
from pyvc_contracts_d20_tree_run import OWN_FRAME

D = "pyhms.demes."
A = D + "abstract_deme.AbstractDeme."

fn("ext.$QMC.random", params={"n": "int"}, returns="oarr", modifies=[("$qmc_draws", "o == self")], trusted=True,
   ensures=[cl("n_points", "nrows(result) == ite(n > 0, n, 0)", tags="C12")],
   note="scipy.stats.qmc sampler: an n x d array of points of the unit cube (contents not modelled)")

# what the constructor leaves and every metaepoch keeps (class invariant of the two sampling demes)
macro("SamplerDeme", ["d"], "d._problem != None and WfProblem(d._problem) and d._history != None and d.sampler != None and d._pop_size >= 1 "
      "and nrows(d.lower_bounds) == 1 and nrows(d.upper_bounds) == 1")


def sampling_deme(mod, cls):
    q = D + f"{mod}.{cls}."
    fn(q + "run",
       requires=[cl("deme", "SamplerDeme(self)")],
       modifies=[("$list<list[list[ref:Individual]]>", "o == self._history"), ("$qmc_draws", "o == self.sampler")] + chain_frame("self._problem"),
       loops={0: dict(index="k", acc="population", acc_type="list[ref:Individual]", modifies=[], invariant=[
           cl("inv_new", "len(population) == k and fresh(population)"),
           cl("inv_unevaluated", "forall(lambda a: imp(0 <= a < k, population[a] != None and fresh(population[a]) "
              "and population[a].problem == self._problem and needs_eval(population[a])), pat=population[a])"),
       ])},
       ensures=[cl("one_more_history_entry", "len(self._history) == old(len(self._history)) + 1 and HistShape(self)", tags="C06"),
                cl("recorded_history_kept", "forall(lambda m: imp(0 <= m < old(len(self._history)), self._history[m] == old(self._history[m])))",
                   tags="C02 C06"),
                cl("one_generation", "len(self._history[-1]) == 1 and fresh(self._history[-1]) and fresh(cur_pop(self))", tags="C05 C06"),
                cl("configured_population_size", "len(cur_pop(self)) == self._pop_size and kind(cur_pop(self)) == 0", tags="C12"),
                cl("all_evaluated_through_the_own_wrapper", "forall(lambda a: imp(0 <= a < len(cur_pop(self)), cur_pop(self)[a] != None "
                   "and cur_pop(self)[a].problem == self._problem and evaluated(cur_pop(self)[a])), pat=cur_pop(self)[a])", tags="C02 C03"),
                cl("count_matches_clock", "counted(self) - old(counted(self)) >= clock() - old(clock()) and clock() >= old(clock())", tags="C03"),
                cl("invariant_kept", "SamplerDeme(self)")])
    refine(q + "run_metaepoch", A + "run_metaepoch",
           modifies=OWN_FRAME + USER_PROBLEM_FRAME,
           ensures=[cl("one_generation_per_metaepoch", "len(self._history[-1]) == 1", tags="C05 C06"),
                    cl("consulted_after_the_generation", "gsc_clock(tree) == clock()", tags="C05"),
                    cl("invariant_kept", "SamplerDeme(self) and not engine_stop(self)")])


sampling_deme("lhs_deme", "LHSDeme")
sampling_deme("sobol_deme", "SobolDeme")
