"""pyhms/tree.py - query accessors (C03, C04, C20)."""
from pyvc.spec import cl, fn, macro

T = "pyhms.tree.DemeTree."

fn(T + "n_evaluations", returns="int", value="tree_evals(self)",
   requires=[cl("shape", "TreeShape(self)")],
   ensures=[cl("sum_over_all_demes", "result == tree_evals(self)", tags="C03 C20")])

fn(T + "all_demes", returns="list[tuple[int,ref:AbstractDeme]]", inline=True, pure=True,
   requires=[cl("shape", "TreeShape(self)")],
   ensures=[cl("every_deme_once_in_level_order",
               "len(result) == len(tree_demes(self)) and forall(lambda j: imp(0 <= j < len(result), "
               "result[j][1] == tree_demes(self)[j] and 0 <= result[j][0] < len(self._levels)))", tags="C03 C20 C07"),
            ])

# the deme bests are comparable: evaluated, and all in one optimisation direction (DESIGN 4.3: all levels share it)
macro("BestsComparable", ["t"], """
    forall(lambda l, i: imp(0 <= l < len(t._levels) and 0 <= i < len(t._levels[l]) and t._levels[l][i].best_individual != None,
                            evaluated(t._levels[l][i].best_individual)
                            and dirmax(inner(t._levels[l][i].best_individual.problem)) == dirmax(inner(t._levels[0][0]._problem))))
""")

fn(T + "best_individual", returns="ref:Individual", heapfn=True,
   requires=[cl("shape", "TreeShape(self)")],
   ensures=[cl("is_a_deme_best", "imp(result != None, exists(lambda l, i: 0 <= l < len(self._levels) and 0 <= i < len(self._levels[l]) "
               "and result == self._levels[l][i].best_individual))", tags="C04 C02"),
            cl("no_deme_best_is_better",
               "imp(BestsComparable(self), forall(lambda l, i: imp(0 <= l < len(self._levels) and 0 <= i < len(self._levels[l]) "
               "and self._levels[l][i].best_individual != None, "
               "not ind_lt(result, self._levels[l][i].best_individual))))", tags="C04 C13")])
