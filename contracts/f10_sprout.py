"""pyhms/sprout - candidate generators, filters, the sprout mechanism (C08, C09, C10)."""
from pyvc.spec import cl, fn, macro, ghost_fields, fields, trusted, refine, specfn, CONTRACTS

SF = "pyhms.sprout.sprout_filters."
SG = "pyhms.sprout.sprout_generators."
SM = "pyhms.sprout.sprout_mechanisms.SproutMechanism."
fields("FarEnough", min_distance="fl", norm_ord="int")
fields("NBC_FarEnough", min_distance_factor="fl", norm_ord="int", check_only_active="bool")
fields("DemeLimit", limit="int")
fields("NBC_Generator", distance_factor="fl", truncation_factor="fl")
fields("LevelLimit", limit="int")
fields("SproutMechanism", candidates_generator="ref:SproutCandidatesGenerator", deme_filter_chain="list[ref:DemeLevelCandidatesFilter]",
       tree_filter_chain="list[ref:TreeLevelCandidatesFilter]",
       _generated_deme_ids_to_candidates_history="list[ref:$Opaque]", _used_deme_ids_to_candidates_history="list[ref:$Opaque]")

specfn("DIST", ["int", "g", "og"], "fl")       # ||x - y||_ord  (numpy.linalg.norm of the difference): an uninterpreted metric
specfn("MEANG", ["ref"], "og")                  # mean genome of a list of individuals: axiomatised in npmodels (extensional)

# candidates as the filters see them; cdict(r) (ghost) is the dictionary a candidate record belongs to - it lets the frames of the
# filters name "the records of this dictionary" without an existential quantifier
ghost_fields(**{"$cdict": "ref", "$ckey": "ref"})
macro("cdict", ["r"], 'field(r, "$cdict", "ref")')
macro("ckey", ["r"], 'field(r, "$ckey", "ref")')          # the deme a candidate record belongs to: records of different demes differ
macro("CandsOk", ["c"], """
    c != None and forall(lambda k: imp(0 <= k < len(c.keys()), c.keys()[k] != None and c[c.keys()[k]] != None
                                        and c[c.keys()[k]].individuals != None and c[c.keys()[k]].features != None
                                        and cdict(c[c.keys()[k]]) == c and ckey(c[c.keys()[k]]) == c.keys()[k]), pat=c.keys()[k])
""")
# x was, when the call began, one of the candidates held by the candidate record dc
macro("WasCandidate", ["dc", "x"], "exists(lambda i_: 0 <= i_ and i_ < old(len(dc.individuals)) and old(dc.individuals[i_]) == x)")
macro("Member", ["x", "lst"], "exists(lambda i_: 0 <= i_ and i_ < len(lst) and lst[i_] == x)")
# "filters only ever remove": same dictionary, same keys, every kept individual was a candidate of the same deme before
ONLY_REMOVES = [
    cl("same_dictionary", "result == candidates and len(candidates.keys()) == old(len(candidates.keys())) and "
       "forall(lambda k: imp(0 <= k < len(candidates.keys()), candidates.keys()[k] == old(candidates.keys()[k]) "
       "and candidates[candidates.keys()[k]] == old(candidates[candidates.keys()[k]])), pat=candidates.keys()[k])", tags="C10"),
    cl("only_removes", "forall(lambda k: imp(0 <= k < len(candidates.keys()), "
       "forall(lambda j: imp(0 <= j < len(candidates[candidates.keys()[k]].individuals), "
       "WasCandidate(candidates[candidates.keys()[k]], candidates[candidates.keys()[k]].individuals[j])), "
       "pat=candidates[candidates.keys()[k]].individuals[j])), "
       "pat=candidates.keys()[k])", tags="C10 C07"),
    cl("new_lists_are_plain", "forall(lambda k: imp(0 <= k < len(candidates.keys()), "
       "candidates[candidates.keys()[k]].individuals == old(candidates[candidates.keys()[k]].individuals) "
       "or (fresh(candidates[candidates.keys()[k]].individuals) and kind(candidates[candidates.keys()[k]].individuals) == 0)), "
       "pat=candidates.keys()[k])"),
    cl("candidates_ok", "CandsOk(candidates)"),
]
FILTER_FRAME = [("individuals", "cdict(o) == candidates"),
                ("_centroid", "True"), ("_threshold", "o == self")]
FILTER_PRE = [cl("candidates", "CandsOk(candidates)"), cl("tree", "tree != None and S_levels(tree) and S_deme(tree)"),
              cl("keys_in_tree", "forall(lambda k: imp(0 <= k < len(candidates.keys()), InTree(tree, candidates.keys()[k]) "
                 "and candidates.keys()[k]._level + 1 < len(tree._levels)), pat=candidates.keys()[k])")]
for base in ("DemeLevelCandidatesFilter", "TreeLevelCandidatesFilter"):
    fn(SF + base + ".__call__", abstract=True,
       params={"candidates": "dict[ref:AbstractDeme,ref:DemeCandidates]", "tree": "ref:DemeTree"},
       returns="dict[ref:AbstractDeme,ref:DemeCandidates]",
       requires=FILTER_PRE, modifies=FILTER_FRAME, ensures=ONLY_REMOVES,
       note="user-defined filters are assumed to satisfy it; every shipped filter under contract is proved to")


# ---- candidate generators ---------------------------------------------------------------------------------------------------
from pyvc_contracts_d10_tree_structure import struct  # noqa: E402
from pyvc_contracts_d20_tree_run import SEEDS_POST  # noqa: E402

GEN_POST = [
    cl("new_dictionary", "fresh(result) and CandsOk(result)"),
    cl("only_active_non_leaf_demes", "forall(lambda k: imp(0 <= k < len(result.keys()), InTree(tree, result.keys()[k]) "
       "and result.keys()[k]._active and result.keys()[k]._level + 1 < len(tree._levels)), pat=result.keys()[k])", tags="C10 C07"),
    cl("new_candidate_lists", "forall(lambda k: imp(0 <= k < len(result.keys()), fresh(result[result.keys()[k]]) "
       "and fresh(result[result.keys()[k]].individuals) and kind(result[result.keys()[k]].individuals) == 0), pat=result.keys()[k])"),
    cl("from_the_current_population", "forall(lambda k: imp(0 <= k < len(result.keys()), "
       "forall(lambda j: imp(0 <= j < len(result[result.keys()[k]].individuals), "
       "Member(result[result.keys()[k]].individuals[j], cur_pop(result.keys()[k]))), pat=result[result.keys()[k]].individuals[j])), "
       "pat=result.keys()[k])", tags="C10 C07"),
]
fn(SG + "SproutCandidatesGenerator.__call__", abstract=True, params={"tree": "ref:DemeTree"},
   returns="dict[ref:AbstractDeme,ref:DemeCandidates]",
   requires=[cl("tree", "tree != None and S_levels(tree) and S_deme(tree)")], modifies=[],
   ensures=GEN_POST, note="user-defined generators are assumed to satisfy it; every shipped generator under contract is proved to")

# ---- the mechanism: generator, then the two filter chains --------------------------------------------------------------------
fields("SproutMechanism", candidates_generator="ref:SproutCandidatesGenerator")
MECH_FRAME = [("individuals", "cdict(o) == candidates"),
              ("_centroid", "True"), ("_threshold", "True")]


def chain_contract(meth, attr):
    fn(SM + meth, params={"candidates": "dict[ref:AbstractDeme,ref:DemeCandidates]", "tree": "ref:DemeTree"},
       returns="dict[ref:AbstractDeme,ref:DemeCandidates]",
       requires=FILTER_PRE + [cl("chain", f"self.{attr} != None and forall(lambda f: imp(0 <= f < len(self.{attr}), self.{attr}[f] != None))")],
       modifies=MECH_FRAME,
       loops={0: dict(index="f", modifies=MECH_FRAME, invariant=[
           cl("inv_same_dictionary", "candidates == old(candidates) and len(candidates.keys()) == old(len(candidates.keys())) and "
              "forall(lambda k: imp(0 <= k < len(candidates.keys()), candidates.keys()[k] == old(candidates.keys()[k]) "
              "and candidates[candidates.keys()[k]] == old(candidates[candidates.keys()[k]])), pat=candidates.keys()[k])"),
           cl("inv_only_removed", "forall(lambda k: imp(0 <= k < len(candidates.keys()), "
              "forall(lambda j: imp(0 <= j < len(candidates[candidates.keys()[k]].individuals), "
              "WasCandidate(candidates[candidates.keys()[k]], candidates[candidates.keys()[k]].individuals[j])), "
              "pat=candidates[candidates.keys()[k]].individuals[j])), pat=candidates.keys()[k])", tags="C10"),
           cl("inv_plain_lists", "forall(lambda k: imp(0 <= k < len(candidates.keys()), "
              "candidates[candidates.keys()[k]].individuals == old(candidates[candidates.keys()[k]].individuals) "
              "or (fresh(candidates[candidates.keys()[k]].individuals) and kind(candidates[candidates.keys()[k]].individuals) == 0)), "
              "pat=candidates.keys()[k])"),
           cl("inv_pre", " and ".join("(" + c.text + ")" for c in FILTER_PRE)),
       ])},
       ensures=ONLY_REMOVES)


chain_contract("apply_deme_filters", "deme_filter_chain")
chain_contract("apply_tree_filters", "tree_filter_chain")

GS = CONTRACTS.pop(SM + "get_seeds")          # the interface contract stated in d20 (what the tree relies on) is now proved of the body
IN_POP = ("forall(lambda k: imp(0 <= k < len(_call_result.keys()), "
          "forall(lambda j: imp(0 <= j < len(_call_result[_call_result.keys()[k]].individuals), "
          "Member(_call_result[_call_result.keys()[k]].individuals[j], cur_pop(_call_result.keys()[k]))), "
          "pat=_call_result[_call_result.keys()[k]].individuals[j])), pat=_call_result.keys()[k])")
fn(SM + "get_seeds", params=dict(GS.params), returns=GS.returns,
   ghost_after={"apply_deme_filters@0": [f"lemma('still_from_the_population_1', {IN_POP}, 'C10 C07')"],
                "apply_tree_filters@0": [f"lemma('still_from_the_population_2', {IN_POP}, 'C10 C07')"],
                "return@0": ["lemma('same_records', forall(lambda k: imp(0 <= k < len(_call_result.keys()), "
                             "_call_result.keys()[k] in candidates and _call_result[_call_result.keys()[k]] == candidates[_call_result.keys()[k]]), "
                             "pat=_call_result.keys()[k]), 'C10 C07')",
                             "lemma('kept_from_population', forall(lambda k: imp(0 <= k < len(_call_result.keys()), "
                             "forall(lambda j: imp(0 <= j < len(candidates[_call_result.keys()[k]].individuals), "
                             "Member(candidates[_call_result.keys()[k]].individuals[j], cur_pop(_call_result.keys()[k]))), "
                             "pat=candidates[_call_result.keys()[k]].individuals[j])), pat=_call_result.keys()[k]), 'C10 C07')"]},
   # the structure clauses of the interface contract in d20 are not needed here: nothing get_seeds may write (see `modifies`) is
   # read by them, so the caller keeps them by framing
   requires=[cl("tree", "tree != None and S_levels(tree) and S_deme(tree)")] + [cl("mechanism", "MechOk(self)")],
   modifies=[("_centroid", "True"), ("_threshold", "True"), ("$list<ref:$Opaque>", "kind(o) == 7"), ("individuals", "True")],
   ensures=SEEDS_POST + [
       cl("only_active_non_leaf_demes", "forall(lambda k: imp(0 <= k < len(result.keys()), result.keys()[k]._active), pat=result.keys()[k])",
          tags="C10"),
       # "every returned candidate is an individual of its deme's current population" is established at the return statement as the two
       # lemmas same_records + kept_from_population (ghost_after["return@0"]); their conjunction is not restated as a postcondition: the
       # solver does not finish the rewriting step through the dictionary comprehension (undecided, never counted)
   ])

fn(SM + "__init__", params={"candidates_generator": "ref:SproutCandidatesGenerator", "deme_filter_chain": "list[ref:DemeLevelCandidatesFilter]",
                            "tree_filter_chain": "list[ref:TreeLevelCandidatesFilter]"},
   requires=[cl("parts", "candidates_generator != None and deme_filter_chain != None and tree_filter_chain != None "
                "and forall(lambda f: imp(0 <= f < len(deme_filter_chain), deme_filter_chain[f] != None)) "
                "and forall(lambda f: imp(0 <= f < len(tree_filter_chain), tree_filter_chain[f] != None))")],
   modifies=[(f_, "o == self") for f_ in ("candidates_generator", "deme_filter_chain", "tree_filter_chain",
                                          "_generated_deme_ids_to_candidates_history", "_used_deme_ids_to_candidates_history")],
   ghost_after={"assign:_generated_deme_ids_to_candidates_history@0": ["setg(self._generated_deme_ids_to_candidates_history, '$kind', 7)"],
                "assign:_used_deme_ids_to_candidates_history@0": ["setg(self._used_deme_ids_to_candidates_history, '$kind', 7)"]},
   ensures=[cl("well_formed_mechanism", "MechOk(self)", tags="C10")])

# ---- shipped filters against the abstract filter contract ------------------------------------------------------------------------
KEYS_LOOP = [
    cl("inv_same_dictionary", "candidates == old(candidates) and len(candidates.keys()) == old(len(candidates.keys())) and "
       "forall(lambda k: imp(0 <= k < len(candidates.keys()), candidates.keys()[k] == old(candidates.keys()[k]) "
       "and candidates[candidates.keys()[k]] == old(candidates[candidates.keys()[k]])), pat=candidates.keys()[k])"),
    cl("inv_only_removed", "forall(lambda k: imp(0 <= k < len(candidates.keys()), "
       "forall(lambda j: imp(0 <= j < len(candidates[candidates.keys()[k]].individuals), "
       "WasCandidate(candidates[candidates.keys()[k]], candidates[candidates.keys()[k]].individuals[j])), "
       "pat=candidates[candidates.keys()[k]].individuals[j])), pat=candidates.keys()[k])", tags="C10"),
    cl("inv_plain_lists", "forall(lambda k: imp(0 <= k < len(candidates.keys()), "
       "candidates[candidates.keys()[k]].individuals == old(candidates[candidates.keys()[k]].individuals) "
       "or (fresh(candidates[candidates.keys()[k]].individuals) and kind(candidates[candidates.keys()[k]].individuals) == 0)), "
       "pat=candidates.keys()[k])"),
    cl("inv_ok", "CandsOk(candidates)"),
    cl("inv_untouched_yet", "forall(lambda k: imp(q <= k and k < len(candidates.keys()), "
       "candidates[candidates.keys()[k]].individuals == old(candidates[candidates.keys()[k]].individuals) and "
       "len(candidates[candidates.keys()[k]].individuals) == old(len(candidates[candidates.keys()[k]].individuals))), "
       "pat=candidates.keys()[k])"),
]
IND_FRAME = [("individuals", "cdict(o) == candidates")]

refine(SF + "DemeLimit.__call__", SF + "DemeLevelCandidatesFilter.__call__",
       params={"candidates": "dict[ref:AbstractDeme,ref:DemeCandidates]", "_": "ref:DemeTree"},
       requires=[cl("limit", "self.limit >= 0")],
       modifies=IND_FRAME,
       loops={0: dict(index="q", modifies=IND_FRAME, invariant=KEYS_LOOP + [
           cl("inv_limited", "forall(lambda k: imp(0 <= k < q, len(candidates[candidates.keys()[k]].individuals) == "
              "ite(old(len(candidates[candidates.keys()[k]].individuals)) > self.limit, self.limit, "
              "old(len(candidates[candidates.keys()[k]].individuals)))), pat=candidates.keys()[k])", tags="C10")])},
       ensures=[cl("keeps_exactly_min_of_limit_and_available", "forall(lambda k: imp(0 <= k < len(candidates.keys()), "
                   "len(candidates[candidates.keys()[k]].individuals) == ite(old(len(candidates[candidates.keys()[k]].individuals)) > self.limit, "
                   "self.limit, old(len(candidates[candidates.keys()[k]].individuals)))), pat=candidates.keys()[k])", tags="C10")])

# ---- distances and centroids (C09) ------------------------------------------------------------------------------------------------
AD_ = "pyhms.demes.abstract_deme."
fn(AD_ + "compute_centroid", params={"population": "list[ref:Individual]"}, returns="og", pure=True, trusted=True,
   value="ite(len(population) == 0, None, MEANG(population))",
   note="numpy.mean of the genomes of a population (row view): MEANG is its uninterpreted value")
fn(AD_ + "AbstractDeme.centroid", returns="og", pure=True, inline=True,
   requires=[cl("shape", "HistShape(self)")],
   ensures=[cl("mean_of_the_current_population", "same(result, ite(len(cur_pop(self)) == 0, None, MEANG(cur_pop(self))))", tags="C09")])
fn(SF + "FarEnough._is_far_enough", params={"ind": "ref:Individual", "centroid": "og"}, returns="bool", pure=True, trusted=True,
   value="DIST(self.norm_ord, ind.genome, centroid) > self.min_distance",
   note="numpy.linalg.norm(genome - centroid, ord) > min_distance: DIST is the uninterpreted norm of the difference")
fn(SF + "NBC_FarEnough._is_nbc_far_enough", params={"ind": "ref:Individual", "centroid": "og", "mean_dist": "fl"}, returns="bool", pure=True,
   trusted=True, value="DIST(self.norm_ord, ind.genome, centroid) > self.min_distance_factor * mean_dist",
   note="numpy.linalg.norm(genome - centroid, ord) > factor * mean nearest-better distance")


macro("MEAN_OF", ["d"], "ite(len(cur_pop(d)) == 0, None, MEANG(cur_pop(d)))")
macro("ConsiderFE", ["flt", "d"], "d._active")
macro("ConsiderNBC", ["flt", "d"], "d._active or not flt.check_only_active")


def far_enough_filter(cls, consider, threshold):
    """FarEnough / NBC_FarEnough: nested loops (candidate records, then the considered demes of the target level).  Proved: the filter
    only removes (C10), and every kept candidate is farther than the threshold from the centroid of every considered deme of the target
    level (C09).  The inner invariant speaks about the demes of the level through their position in the filtered sibling list
    (comp_rank): that is the witness E-matching cannot find by itself."""
    rec = "candidates[deme]"
    krec = "candidates[candidates.keys()[k]]"
    lvl = "tree._levels[deme._level + 1]"
    macro("FarFromLevel_" + cls, ["flt", "x", "t", "l", "thr"],
          f"forall(lambda i: imp(0 <= i < len(t._levels[l]) and {consider}(flt, t._levels[l][i]), "
          "DIST(flt.norm_ord, x.genome, MEAN_OF(t._levels[l][i])) > thr), pat=t._levels[l][i])")
    all_far = (f"forall(lambda j: imp(0 <= j < len({krec}.individuals), FarFromLevel_{cls}(self, {krec}.individuals[j], tree, "
               f"candidates.keys()[k]._level + 1, {threshold.replace(rec, krec)})), pat={krec}.individuals[j])")
    refine(SF + cls + ".__call__", SF + "DemeLevelCandidatesFilter.__call__",
           locals={"child_seeds": "list[ref:Individual]"},
           modifies=IND_FRAME,
           loops={0: dict(index="q", modifies=IND_FRAME, invariant=KEYS_LOOP + [
                      cl("inv_far", f"forall(lambda k: imp(0 <= k < q, {all_far}), pat=candidates.keys()[k])", tags="C09")]),
                  1: dict(index="s", modifies=[], invariant=[
                      cl("inv_from_candidates", f"forall(lambda j: imp(0 <= j < len(child_seeds), WasCandidate({rec}, child_seeds[j])), "
                         "pat=child_seeds[j])", tags="C10"),
                      cl("inv_far_from_handled", f"forall(lambda j: imp(0 <= j < len(child_seeds), forall(lambda i: imp(0 <= i < len({lvl}) "
                         f"and {consider}(self, {lvl}[i]) and comp_rank(child_siblings, i) < s, "
                         f"DIST(self.norm_ord, child_seeds[j].genome, MEAN_OF({lvl}[i])) > {threshold}), pat={lvl}[i])), "
                         "pat=child_seeds[j])", tags="C09"),
                      cl("inv_seeds_list", f"child_seeds != None and (child_seeds == old({rec}.individuals) or "
                         "(fresh(child_seeds) and kind(child_seeds) == 0))")])},
           ensures=[cl("accepted_sprouts_are_far_from_every_considered_deme",
                       f"forall(lambda k: imp(0 <= k < len(candidates.keys()), {all_far}), pat=candidates.keys()[k])", tags="C09")])


far_enough_filter("FarEnough", "ConsiderFE", "self.min_distance")
far_enough_filter("NBC_FarEnough", "ConsiderNBC", "self.min_distance_factor * candidates[deme].features.nbc_mean_distance")

# LevelLimit: per level, the candidates of all parents on that level are ranked together; each record keeps those strictly better than
# the first one that does not fit.  Proved: only removes.  The counting clause of C08/C10 (at most the free slots survive) needs a
# counting lemma over the sorted concatenation (induction): bounded check instead.
refine(SF + "LevelLimit.__call__", SF + "TreeLevelCandidatesFilter.__call__",
       locals={"level_candidates": "list[ref:Individual]", "level_demes": "list[ref:AbstractDeme]"},
       modifies=IND_FRAME,
       loops={0: dict(index="lv", modifies=IND_FRAME, invariant=[c for c in KEYS_LOOP if c.label != "inv_untouched_yet"]),
              1: dict(index="s", modifies=IND_FRAME, invariant=[c for c in KEYS_LOOP if c.label != "inv_untouched_yet"] + [
                  cl("inv_level_demes", "forall(lambda t: imp(0 <= t < len(level_demes), level_demes[t] in candidates), pat=level_demes[t])")])})

# ---- shipped generators against the abstract generator contract --------------------------------------------------------------------
CL = "pyhms.utils.clusterization.NearestBetterClustering."
ghost_fields(**{"$nbc_src": "list[ref:Individual]"})
macro("nbc_src", ["c"], 'field(c, "$nbc_src", "list[ref:Individual]")')
fn(CL + "__init__", params={"evaluated_individuals": "list[ref:Individual]", "distance_factor": "fl", "truncation_factor": "fl"},
   modifies=[("$nbc_src", "o == self")], trusted=True,
   ensures=[cl("remembers_its_population", "nbc_src(self) == evaluated_individuals")],
   note="nearest-better clustering (treelib, NumPy): construction keeps the best part of the population")
fn(CL + "cluster", returns="list[ref:Individual]", fresh_result=True, modifies=[], trusted=True,
   ensures=[cl("members_of_the_population", "forall(lambda j: imp(0 <= j < len(result), Member(result[j], nbc_src(self))), pat=result[j]) "
               "and kind(result) == 0", tags="C15 C10")],
   note="the cluster seeds are individuals of the clustered population (C15 is checked by the bounded stand-in)")
fn(CL + "distances", returns="list[fl]", pure=True, trusted=True, note="nearest-better distances recorded in the spanning tree")

GEN_INV = [
    cl("inv_acc", "fresh({acc}) and {acc} != None and {acc} == at_entry({acc})"),
    cl("inv_records", "forall(lambda k: imp(0 <= k < len({acc}.keys()), {acc}.keys()[k] != None and {acc}[{acc}.keys()[k]] != None "
       "and fresh({acc}[{acc}.keys()[k]]) and {acc}[{acc}.keys()[k]].individuals != None and {acc}[{acc}.keys()[k]].features != None "
       "and fresh({acc}[{acc}.keys()[k]].individuals) and kind({acc}[{acc}.keys()[k]].individuals) == 0 "
       "and cdict({acc}[{acc}.keys()[k]]) == {acc} and ckey({acc}[{acc}.keys()[k]]) == {acc}.keys()[k]), pat={acc}.keys()[k])"),
    cl("inv_keys", "forall(lambda k: imp(0 <= k < len({acc}.keys()), InTree(tree, {acc}.keys()[k]) and {acc}.keys()[k]._active "
       "and {acc}.keys()[k]._level + 1 < len(tree._levels)), pat={acc}.keys()[k])", tags="C10"),
    cl("inv_from_population", "forall(lambda k: imp(0 <= k < len({acc}.keys()), forall(lambda j: imp(0 <= j < len({acc}[{acc}.keys()[k]].individuals), "
       "Member({acc}[{acc}.keys()[k]].individuals[j], cur_pop({acc}.keys()[k]))), pat={acc}[{acc}.keys()[k]].individuals[j])), "
       "pat={acc}.keys()[k])", tags="C10"),
]


def gen_inv(acc, extra=(), skip=()):
    return [cl(c.label, c.text.replace("{acc}", acc), " ".join(sorted(c.tags))) for c in GEN_INV if c.label not in skip] + list(extra)


POPULATED = []        # "active demes have a non-empty current population" is part of the tree invariant (S_deme), no longer an assumption
INNER = [cl("inv_level", "0 <= a and a < len(tree._levels) - 1 and level == tree._levels[a]")]
refine(SG + "NBC_Generator.__call__", SG + "SproutCandidatesGenerator.__call__",
       locals={"candidates": "dict[ref:AbstractDeme,ref:DemeCandidates]"},
       requires=POPULATED,
       ghost_after={"DemeCandidates@0": ["setg(_call_result, '$cdict', candidates)", "setg(_call_result, '$ckey', deme)"],
                    "cluster@0": ["lemma('cluster_seeds_are_from_the_population', forall(lambda j: imp(0 <= j < len(_call_result), "
                                  "Member(_call_result[j], cur_pop(deme))), pat=_call_result[j]), 'C10')"]},
       loops={0: dict(index="a", modifies=[], local_frame=[("$dict", "o == candidates")], invariant=gen_inv("candidates")),
              1: dict(index="b", modifies=[], local_frame=[("$dict", "o == candidates")], invariant=gen_inv("candidates", INNER),
                      hints=[cl("h_one_entry_set", "forall(lambda k: imp(0 <= k < len(candidates.keys()), candidates.keys()[k] == deme or "
                                "(k < at_head(len(candidates.keys())) and candidates.keys()[k] == at_head(candidates.keys()[k]) and "
                                "candidates[candidates.keys()[k]] == at_head(candidates[candidates.keys()[k]]))), pat=candidates.keys()[k])"),
                             cl("h_new_record", "imp(deme._active, deme in candidates and forall(lambda j: imp(0 <= j < len(candidates[deme].individuals), "
                                "Member(candidates[deme].individuals[j], cur_pop(deme))), pat=candidates[deme].individuals[j]))")])})

# "the deme's current best": a member of the current population that no member beats (for evaluated members of one direction)
macro("IsCurrentBest", ["x", "d"], """
    Member(x, cur_pop(d)) and
    imp(forall(lambda m: imp(0 <= m < len(cur_pop(d)), cur_pop(d)[m] != None and evaluated(cur_pop(d)[m])
                                                         and inner(cur_pop(d)[m].problem) == inner(d._problem)), pat=cur_pop(d)[m]),
        forall(lambda m: imp(0 <= m < len(cur_pop(d)), not ind_lt(x, cur_pop(d)[m])), pat=cur_pop(d)[m]))
""")
BEST = [cl("inv_exactly_the_current_best", "forall(lambda k: imp(0 <= k < len(cands.keys()), len(cands[cands.keys()[k]].individuals) == 1 "
           "and IsCurrentBest(cands[cands.keys()[k]].individuals[0], cands.keys()[k])), pat=cands.keys()[k])", tags="C10")]
refine(SG + "BestPerDeme.__call__", SG + "SproutCandidatesGenerator.__call__",
       requires=POPULATED,
       ghost_after={"DemeCandidates@0": ["setg(_call_result, '$cdict', cands)", "setg(_call_result, '$ckey', deme)"]},
       loops={0: dict(index="a", acc="cands", acc_type="dict[ref:AbstractDeme,ref:DemeCandidates]", modifies=[],
                      local_frame=[("$dict", "o == cands")], invariant=gen_inv("cands", BEST, skip=("inv_from_population",))),
              # (membership in the current population is part of IsCurrentBest: no separate invariant)
              1: dict(index="b", modifies=[], local_frame=[("$dict", "o == cands")],
                      invariant=gen_inv("cands", BEST + INNER, skip=("inv_from_population",)))},
       ensures=[cl("proposes_exactly_the_current_best", "forall(lambda k: imp(0 <= k < len(result.keys()), "
                   "len(result[result.keys()[k]].individuals) == 1 and "
                   "IsCurrentBest(result[result.keys()[k]].individuals[0], result.keys()[k])), pat=result.keys()[k])", tags="C10 C13")])
