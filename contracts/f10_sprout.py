"""pyhms/sprout - candidate generators, filters, the sprout mechanism (C08, C09, C10)."""
from pyvc.spec import cl, fn, macro, ghost_fields, fields, trusted, refine, specfn, CONTRACTS

SF = "pyhms.sprout.sprout_filters."
SG = "pyhms.sprout.sprout_generators."
SM = "pyhms.sprout.sprout_mechanisms.SproutMechanism."
fields("FarEnough", min_distance="fl", norm_ord="int")
fields("NBC_FarEnough", min_distance_factor="fl", norm_ord="int", check_only_active="bool")
fields("DemeLimit", limit="int")
fields("LevelLimit", limit="int")
fields("SproutMechanism", candidates_generator="ref:SproutCandidatesGenerator", deme_filter_chain="list[ref:DemeLevelCandidatesFilter]",
       tree_filter_chain="list[ref:TreeLevelCandidatesFilter]",
       _generated_deme_ids_to_candidates_history="list[ref:$Opaque]", _used_deme_ids_to_candidates_history="list[ref:$Opaque]")

specfn("DIST", ["int", "g", "og"], "fl")       # ||x - y||_ord  (numpy.linalg.norm of the difference): an uninterpreted metric
specfn("MEANG", ["ref"], "og")                  # mean genome of a list of individuals: axiomatised in npmodels (extensional)

# candidates as the filters see them
macro("CandsOk", ["c"], """
    c != None and forall(lambda k: imp(0 <= k < len(c.keys()), c.keys()[k] != None and c[c.keys()[k]] != None
                                        and c[c.keys()[k]].individuals != None and c[c.keys()[k]].features != None), pat=c.keys()[k])
""")
macro("Member", ["x", "lst"], "exists(lambda i_: 0 <= i_ and i_ < len(lst) and lst[i_] == x)")
# "filters only ever remove": same dictionary, same keys, every kept individual was a candidate of the same deme before
ONLY_REMOVES = [
    cl("same_dictionary", "result == candidates and len(candidates.keys()) == old(len(candidates.keys())) and "
       "forall(lambda k: imp(0 <= k < len(candidates.keys()), candidates.keys()[k] == old(candidates.keys()[k]) "
       "and candidates[candidates.keys()[k]] == old(candidates[candidates.keys()[k]])), pat=candidates.keys()[k])", tags="C10"),
    cl("only_removes", "forall(lambda k: imp(0 <= k < len(candidates.keys()), "
       "len(candidates[candidates.keys()[k]].individuals) <= old(len(candidates[candidates.keys()[k]].individuals)) and "
       "forall(lambda j: imp(0 <= j < len(candidates[candidates.keys()[k]].individuals), "
       "old(Member(candidates[candidates.keys()[k]].individuals[j], candidates[candidates.keys()[k]].individuals))))), "
       "pat=candidates.keys()[k])", tags="C10 C07"),
    cl("candidates_ok", "CandsOk(candidates)"),
]
FILTER_FRAME = [("individuals", "exists(lambda k: 0 <= k and k < len(candidates.keys()) and o == candidates[candidates.keys()[k]])"),
                ("_centroid", "True"), ("_threshold", "o == self")]
FILTER_PRE = [cl("candidates", "CandsOk(candidates)"), cl("tree", "tree != None and S_levels(tree) and S_deme(tree)"),
              cl("keys_in_tree", "forall(lambda k: imp(0 <= k < len(candidates.keys()), InTree(tree, candidates.keys()[k]) "
                 "and candidates.keys()[k]._level + 1 < len(tree._levels)), pat=candidates.keys()[k])")]
for base in ("DemeLevelCandidatesFilter", "TreeLevelCandidatesFilter"):
    fn(SF + base + ".__call__", abstract=True,
       params={"candidates": "dict[ref:AbstractDeme,ref:DemeCandidates]", "tree": "ref:DemeTree"},
       returns="dict[ref:AbstractDeme,ref:DemeCandidates]",
       requires=FILTER_PRE, modifies=FILTER_FRAME, ensures=ONLY_REMOVES,
       note="user-defined filters are assumed to satisfy it; every shipped filter under contract is proved to")


# ---- candidate generators ---------------------------------------------------------------------------------------------------
from pyvc_contracts_d10_tree_structure import struct  # noqa: E402
from pyvc_contracts_d20_tree_run import SEEDS_POST  # noqa: E402

GEN_POST = [
    cl("new_dictionary", "fresh(result) and CandsOk(result)"),
    cl("only_active_non_leaf_demes", "forall(lambda k: imp(0 <= k < len(result.keys()), InTree(tree, result.keys()[k]) "
       "and result.keys()[k]._active and result.keys()[k]._level + 1 < len(tree._levels)), pat=result.keys()[k])", tags="C10 C07"),
    cl("new_candidate_lists", "forall(lambda k: imp(0 <= k < len(result.keys()), fresh(result[result.keys()[k]]) "
       "and fresh(result[result.keys()[k]].individuals) and kind(result[result.keys()[k]].individuals) == 0), pat=result.keys()[k])"),
    cl("from_the_current_population", "forall(lambda k: imp(0 <= k < len(result.keys()), "
       "forall(lambda j: imp(0 <= j < len(result[result.keys()[k]].individuals), "
       "Member(result[result.keys()[k]].individuals[j], cur_pop(result.keys()[k]))))), pat=result.keys()[k])", tags="C10 C07"),
]
fn(SG + "SproutCandidatesGenerator.__call__", abstract=True, params={"tree": "ref:DemeTree"},
   returns="dict[ref:AbstractDeme,ref:DemeCandidates]",
   requires=[cl("tree", "tree != None and S_levels(tree) and S_deme(tree)")], modifies=[],
   ensures=GEN_POST, note="user-defined generators are assumed to satisfy it; every shipped generator under contract is proved to")
