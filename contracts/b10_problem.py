"""pyhms/core/problem.py - C16 (transparent wrappers, counter laws), C03 (counting), C13 (ordering)."""
from pyvc.spec import cl, fields, fn, macro, refine

fields("FunctionProblem", fitness_function="ext:objective", _bounds="arr:B", _maximize="bool", _cache="ref:NumpyCache")
fields("ProblemWrapper", _inner="ref:Problem")
fields("EvalCountingProblem", _n_evals="int")
fields("EvalCutoffProblem", _eval_cutoff="int")
fields("PrecisionCutoffProblem", _global_optima="fl", precision="fl", ETA="fl", hit_precision="bool")
fields("StatsGatheringProblem", _n_evals="int", _durations="list[fl]")

# the frame of an evaluation through a stack: counters / flags of the objects of the stack only
CHAIN_FRAME = [
    ("_n_evals", "in_chain(self, o)"),
    ("hit_precision", "in_chain(self, o)"),
    ("ETA", "in_chain(self, o)"),
    ("$refused", "in_chain(self, o)"),
    ("$ncalls", "o == inner(self)"),
    ("$clock", "o == None"),
    ("$list<fl>", "field(o, '$kind', 'int') == 9 and in_chain(self, dur_owner(o)) and instance_of(dur_owner(o), 'StatsGatheringProblem')"),
]

# the part of the frame below an object (what a forwarding wrapper's super().evaluate may touch)
def frame_of(own_fields):
    out = []
    for f, c in CHAIN_FRAME:
        if f in own_fields or f in ("$ncalls", "$list<fl>", "$clock"):
            out.append((f, c))
        else:
            out.append((f, "(" + c + ") and o != self"))
    return out


# ---- the user's objective (external) ----------------------------------------------------------
fn("ext.objective.__call__", params={"genome": "g"}, returns="fl",
   modifies=[("$ncalls", "o == self"), ("$clock", "o == None")],
   ensures=[cl("value", "result == F(self, genome)"),
            cl("counted", "ncalls(self) == old(ncalls(self)) + 1 and clock() == old(clock()) + 1"),
            cl("is_number", "not is_nan(result) and not is_none(result)")],
   trusted=True, note="the objective: deterministic, total, never NaN; ghost ncalls counts its invocations")

# ---- abstract contracts (dynamic dispatch through `_inner`, `problem`) ---------------------------
fn("pyhms.core.problem.Problem.evaluate", abstract=True, params={"genome": "g"}, returns="fl", reveal=["WfProblem"],
   requires=[cl("wf", "WfProblem(self)")],
   modifies=CHAIN_FRAME,
   ensures=[cl("transparent", "Transparent(self, genome, result, old(ncalls(inner(self))), ncalls(inner(self)))",
               tags="C16 C02 C03"),
            cl("clock_counts_invocations", "clock() - old(clock()) == ncalls(inner(self)) - old(ncalls(inner(self)))", tags="C03"),
            cl("own_counter_covers_invocations", "imp(instance_of(self, 'EvalCountingProblem'), "
               "cast(self, 'ref:EvalCountingProblem')._n_evals - old(cast(self, 'ref:EvalCountingProblem')._n_evals) "
               ">= clock() - old(clock())) and clock() >= old(clock())", tags="C03"),
            cl("counters_monotone", "forall(lambda o: imp(in_chain(self, o) and instance_of(o, 'EvalCountingProblem'), "
               "cast(o, 'ref:EvalCountingProblem')._n_evals >= old(cast(o, 'ref:EvalCountingProblem')._n_evals)), o='ref:Problem')")])

fn("pyhms.core.problem.Problem.worse_than", abstract=True, reveal=["WfProblem"], params={"first_fitness": "fl", "second_fitness": "fl"},
   returns="bool", requires=[cl("wf", "WfProblem(self)")],
   ensures=[cl("order", "imp(is_num(first_fitness) and is_num(second_fitness), "
               "result == worse(inner(self), first_fitness, second_fitness))", tags="C16 C13 C04"),
            cl("nan_first_is_worse", "imp(is_nan(first_fitness) and is_num(second_fitness), result)"),
            cl("nan_second", "imp(is_num(first_fitness) and is_nan(second_fitness), not result)")])

fn("pyhms.core.problem.Problem.bounds", abstract=True, returns="arr:B", pure=True, reveal=["WfProblem"],
   requires=[cl("wf", "WfProblem(self)")],
   ensures=[cl("box", "result == box(inner(self))", tags="C16")])

fn("pyhms.core.problem.Problem.maximize", abstract=True, returns="bool", pure=True, reveal=["WfProblem"],
   requires=[cl("wf", "WfProblem(self)")],
   ensures=[cl("direction", "result == dirmax(inner(self))", tags="C16 C13")])

fn("pyhms.core.problem.Problem.equivalent", params={"first_fitness": "fl", "second_fitness": "fl"}, returns="bool",
   ensures=[cl("eq", "result == (fl(first_fitness) == fl(second_fitness))")], pure=True)




P = "pyhms.core.problem."
# ---- FunctionProblem --------------------------------------------------------------------------
refine(P + "FunctionProblem.evaluate", P + "Problem.evaluate",
       ensures=[cl("invokes_once", "ncalls(self) == old(ncalls(self)) + 1 and result == F(self, genome)", tags="C03 C16")])
refine(P + "FunctionProblem.worse_than", P + "Problem.worse_than")
refine(P + "FunctionProblem.bounds", P + "Problem.bounds")
refine(P + "FunctionProblem.maximize", P + "Problem.maximize")

# ---- ProblemWrapper ---------------------------------------------------------------------------
refine(P + "ProblemWrapper.evaluate", P + "Problem.evaluate")
refine(P + "ProblemWrapper.worse_than", P + "Problem.worse_than")
refine(P + "ProblemWrapper.bounds", P + "Problem.bounds")
refine(P + "ProblemWrapper.maximize", P + "Problem.maximize")

# ---- EvalCountingProblem: counts exactly the calls it forwarded ----------------------------------
refine(P + "EvalCountingProblem.evaluate", P + "Problem.evaluate", static_only=True,
       modifies=frame_of(["_n_evals"]),
       ensures=[cl("counts_one", "self._n_evals == old(self._n_evals) + 1", tags="C03 C16"),
                cl("forwards_once_or_refused_below",
                   "ncalls(inner(self)) - old(ncalls(inner(self))) <= 1", tags="C03")])
fn(P + "EvalCountingProblem.n_evaluations", returns="int", pure=True,
   ensures=[cl("is_counter", "result == self._n_evals", tags="C03")])

# ---- EvalCutoffProblem: forwards exactly the first N calls, then the direction's worst value ------
refine(P + "EvalCutoffProblem.evaluate", P + "Problem.evaluate",
       ensures=[cl("refuse_at_cutoff",
                   "imp(old(self._n_evals) >= self._eval_cutoff, result == worst(inner(self)) "
                   "and ncalls(inner(self)) == old(ncalls(inner(self))) and self._n_evals == old(self._n_evals))",
                   tags="C03 C16"),
                cl("forward_below", "imp(old(self._n_evals) < self._eval_cutoff, self._n_evals == old(self._n_evals) + 1)",
                   tags="C03 C16"),
                cl("hard_budget", "imp(old(self._n_evals) <= self._eval_cutoff and self._eval_cutoff >= 0, "
                   "self._n_evals <= self._eval_cutoff)", tags="C03 C16"),
                cl("sentinel_not_forwarded", "imp(old(self._n_evals) >= self._eval_cutoff, "
                   "forall(lambda o: imp(in_chain(self, o) and instance_of(o, 'EvalCountingProblem'), "
                   "cast(o, 'ref:EvalCountingProblem')._n_evals == old(cast(o, 'ref:EvalCountingProblem')._n_evals)), o='ref:Problem'))",
                   tags="C16")])

# ---- PrecisionCutoffProblem: 1-based index of the first hit, sticky ---------------------------------
refine(P + "PrecisionCutoffProblem.evaluate", P + "Problem.evaluate",
       ensures=[cl("counts_one", "self._n_evals == old(self._n_evals) + 1", tags="C16"),
                cl("sticky", "imp(old(self.hit_precision), self.hit_precision and same(self.ETA, old(self.ETA)))", tags="C16 C05"),
                cl("eta_is_1based_index", "imp(not old(self.hit_precision) and self.hit_precision, "
                   "self.ETA == fl(old(self._n_evals) + 1))", tags="C16"),
                cl("hit_iff_within", "imp(not old(self.hit_precision) and is_fin(result) and is_fin(self._global_optima) "
                   "and is_fin(self.precision), self.hit_precision == "
                   "(abs(real(result) - real(self._global_optima)) <= real(self.precision)))", tags="C16"),
                cl("unset_stays", "imp(not self.hit_precision, same(self.ETA, old(self.ETA)))", tags="C16")])

# ---- StatsGatheringProblem -----------------------------------------------------------------------
refine(P + "StatsGatheringProblem.evaluate", P + "Problem.evaluate",
       ensures=[cl("counts_one", "self._n_evals == old(self._n_evals) + 1", tags="C16"),
                cl("one_duration", "len(self._durations) == old(len(self._durations)) + 1", tags="C16")])

fn(P + "get_function_problem", params={"problem": "ref:Problem"}, returns="ref:FunctionProblem", pure=True, reveal=["WfProblem"],
   requires=[cl("wf", "WfProblem(problem)")],
   ensures=[cl("innermost", "result == inner(problem)", tags="C16")],
   raises=[cl("never", "False")])
