"""pyhms/demes/single_pop_eas/common.py apply_bounds - C17 (and the in-box step of C01), coordinate view."""
from pyvc.spec import cl, fn, trusted

AB = "pyhms.demes.single_pop_eas.common."
BOX = [cl("box", "finite(genomes) and finite(lower_of(bounds)) and finite(upper_of(bounds)) and lower_of(bounds) < upper_of(bounds)"),
       cl("no_overflow", "finite(genomes - lower_of(bounds)) and finite(upper_of(bounds) - lower_of(bounds))")]
IN_BOX = [cl("lands_inside_the_box", "lower_of(bounds) <= result and result <= upper_of(bounds)", tags="C17 C01"),
          cl("leaves_inside_points_alone", "imp(lower_of(bounds) <= genomes and genomes <= upper_of(bounds), result == genomes)", tags="C17")]

for m in ("clip", "reflect", "toroidal"):
    fn(AB + f"apply_bounds#{m}_fp64", params={"genomes": "elem", "bounds": "ebounds", "method": "str"}, returns="elem", elem_tier="fp64", pure=True, budget_mult=30,
       requires=BOX + [cl("method", f"method == strlit('{m}')")], ensures=IN_BOX,
       note="IEEE binary64, round to nearest even; numpy.mod / floor_divide through their contracts (DESIGN 4.1)")
fn(AB + "_repair_only_outside#fp64", params={"genomes": "elem", "repaired": "elem", "lower_bounds": "elem", "upper_bounds": "elem"},
   returns="elem", elem_tier="fp64", pure=True,
   requires=[cl("box", "finite(genomes) and not_nan(repaired) and finite(lower_bounds) and finite(upper_bounds) and lower_bounds < upper_bounds")],
   ensures=[cl("lands_inside_the_box", "lower_bounds <= result and result <= upper_bounds", tags="C17 C01"),
            cl("leaves_inside_points_alone", "imp(lower_bounds <= genomes and genomes <= upper_bounds, result == genomes)", tags="C17")])

# real tier: where a coordinate is moved it is moved as the method prescribes
fn(AB + "apply_bounds#clip_real", params={"genomes": "elem", "bounds": "ebounds", "method": "str"}, returns="elem", elem_tier="real", pure=True,
   requires=[cl("box", "lower_of(bounds) < upper_of(bounds)"), cl("method", "method == strlit('clip')")],
   ensures=[cl("nearest_face", "imp(genomes < lower_of(bounds), result == lower_of(bounds)) and "
               "imp(genomes > upper_of(bounds), result == upper_of(bounds))", tags="C17")])
RANGE = "(upper_of(bounds) - lower_of(bounds))"
XN = "(genomes - lower_of(bounds))"
OUTSIDE = "(genomes < lower_of(bounds) or genomes > upper_of(bounds))"
fn(AB + "apply_bounds#toroidal_real", params={"genomes": "elem", "bounds": "ebounds", "method": "str"}, returns="elem", elem_tier="real", pure=True,
   requires=[cl("box", "lower_of(bounds) < upper_of(bounds)"), cl("method", "method == strlit('toroidal')")],
   ensures=[cl("wraps_by_whole_ranges", f"imp({OUTSIDE}, result == genomes - times(rdiv({XN}, {RANGE}), {RANGE}))", tags="C17"),
            cl("inside", "lower_of(bounds) <= result and result <= upper_of(bounds)", tags="C17")])
fn(AB + "apply_bounds#reflect_real", params={"genomes": "elem", "bounds": "ebounds", "method": "str"}, returns="elem", elem_tier="real", pure=True,
   requires=[cl("box", "lower_of(bounds) < upper_of(bounds)"), cl("method", "method == strlit('reflect')")],
   ensures=[cl("mirrors_about_the_violated_faces",
               f"imp({OUTSIDE}, result - lower_of(bounds) == ite(rdiv({XN}, {RANGE}) % 2 == 0, "
               f"{XN} - times(rdiv({XN}, {RANGE}), {RANGE}), times(rdiv({XN}, {RANGE}) + 1, {RANGE}) - {XN}))", tags="C17"),
            cl("inside", "lower_of(bounds) <= result and result <= upper_of(bounds)", tags="C17")],
   note="even number of flips: result - lower = (x - lower) - 2j*range; odd: result - lower = 2j*range - (x - lower): "
        "congruent to +/- the input modulo twice the range")
trusted("apply_bounds is specified for inputs where x - lower and upper - lower do not overflow (|x|, |bounds| below 8.9e307)")
trusted("numpy.mod(x, r) for finite x and finite r > 0 (fp64): 0 <= m <= r; m == x when 0 <= x < r; m == RN(x + r) when -r <= x < 0")
trusted("coordinate view: broadcasting of a length-d vector against an (n, d) array; ufuncs act elementwise")
