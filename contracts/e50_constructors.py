"""Deme constructors (C07, C06, C18, C02, C03): every shipped deme class is proved to refine the abstract constructor contract
ext.$DemeCtor (d10) and to establish the class invariant its run_metaepoch contract relies on."""
from pyvc.spec import cl, fn, macro, fields, refine, CONTRACTS
from pyvc_contracts_c20_individual import chain_frame

D = "pyhms.demes."
A = D + "abstract_deme.AbstractDeme."
ABSTRACT_FIELDS = ["$engine_stop", "_id", "_started_at", "_sprout_seed", "_level", "_config", "_lsc", "_problem", "_bounds", "_active", "_centroid",
                   "_history", "_children", "_logger", "_hibernating"]

# what AbstractDeme.__init__ leaves: everything of DemeFresh except the first history entry
macro("DemeBase", ["r", "a"], """
    r._id == a.id and r._level == a.level and r._started_at == a.started_at and r._sprout_seed == a.sprout_seed
    and r._config == a.config and r._lsc == a.config.lsc and r._active and not r._hibernating and is_none(r._centroid)
    and not engine_stop(r)
    and r._children != None and fresh(r._children) and len(r._children) == 0 and kind(r._children) == 2 and owner(r._children) == r
    and r._history != None and fresh(r._history) and len(r._history) == 0 and kind(r._history) == 3 and owner(r._history) == r
    and r._problem != None and fresh(r._problem) and r._problem._inner == a.config.problem and r._problem._n_evals == 0
    and wowner(r._problem) == r and WfProblem(r._problem) and r._bounds == box(inner(a.config.problem))
    and forall(lambda q: imp(in_chain(r._problem, q), q == r._problem or in_chain(a.config.problem, q)), q='ref:Problem',
               pat=in_chain(r._problem, q))
""")
CTOR_PRE = [cl("args", "deme_init_args != None and deme_init_args.config != None and WfProblem(deme_init_args.config.problem)")]

fn(A + "__init__", params={"deme_init_args": "ref:DemeInitArgs"}, reveal=["WfProblem"],
   requires=CTOR_PRE,
   modifies=[(f, "o == self") for f in ABSTRACT_FIELDS],
   ghost_after={"assign:_history@0": ["setg(self._history, '$kind', 3)", "setg(self._history, '$owner', self)"],
                "assign:_children@0": ["setg(self._children, '$kind', 2)", "setg(self._children, '$owner', self)"],
                "assign:_problem@0": ["setg(self._problem, '$wowner', self)"],
                "assign:_active@0": ["setg(self, '$engine_stop', False)"]},
   ensures=[cl("base", "DemeBase(self, deme_init_args)", tags="C07 C06 C18")])

# ---- LHS / Sobol -------------------------------------------------------------------------------------------------------
fields("LHSLevelConfig", pop_size="int")
fields("SobolLevelConfig", pop_size="int")
fn("ext.scipy.stats.qmc.LatinHypercube", params={"d": "int", "seed": "oint"}, returns="ref:$QMC", fresh_result=True, trusted=True,
   ensures=[cl("a_sampler", "result != None")], note="scipy.stats.qmc.LatinHypercube construction")
fn("ext.scipy.stats.qmc.Sobol", params={"d": "int", "scramble": "bool", "seed": "oint"}, returns="ref:$QMC", fresh_result=True, trusted=True,
   ensures=[cl("a_sampler", "result != None")], note="scipy.stats.qmc.Sobol construction")

FRESH = ("DemeFresh(self, deme_init_args.config, deme_init_args.id, deme_init_args.level, deme_init_args.started_at, "
         "deme_init_args.sprout_seed)")


def ctor(qual, own_fields, invariant, **kw):
    return fn(qual, params={"deme_init_args": "ref:DemeInitArgs"}, reveal=["WfProblem"],
              requires=CTOR_PRE + kw.pop("requires", []),
              modifies=[(f, "o == self") for f in ABSTRACT_FIELDS + own_fields] + chain_frame("deme_init_args.config.problem")
              + kw.pop("modifies", []),
              ensures=[cl("fresh_deme", FRESH, tags="C07 C06 C18"),
                       cl("class_invariant_established", invariant, tags="C02 C03 C06")] + kw.pop("ensures", []), **kw)


for mod, cls in (("lhs_deme", "LHSDeme"), ("sobol_deme", "SobolDeme")):
    ctor(D + f"{mod}.{cls}.__init__", ["_pop_size", "sampler", "lower_bounds", "upper_bounds"],
         "SamplerDeme(self) and not engine_stop(self)",
         requires=[cl("config_class", f"exact_type(deme_init_args.config, '{cls.replace('Deme', 'LevelConfig')}') "
                      "and deme_init_args.config.pop_size >= 1")])

# ---- local search ---------------------------------------------------------------------------------------------------------
fields("LocalOptimizationConfig", method="str", maxiter="int")
ctor(D + "local_deme.LocalDeme.__init__", ["_method", "_n_evals", "_run_history", "_options"],
     "LocalInv(self) and not engine_stop(self)",
     requires=[cl("has_a_seed", "deme_init_args.sprout_seed != None"),
               cl("config_class", "exact_type(deme_init_args.config, 'LocalOptimizationConfig')")],
     ghost_after={"assign:_run_history@0": ["setg(self._run_history, '$kind', 10)", "setg(self._run_history, '$owner', self)"]},
     ensures=[cl("starts_from_the_seed", "len(cur_pop(self)) == 1 and cur_pop(self)[0] == deme_init_args.sprout_seed", tags="C07")])

# ---- CMA-ES ---------------------------------------------------------------------------------------------------------------
fields("CMALevelConfig", generations="int", sigma0="fl", set_stds="bool")
fields("$rec", bounds="list[list[fl]]", verbose="int", seed="oint", CMA_stds="oarr")
C_U = "pyhms.utils.covariance_estimate."
fn(C_U + "get_initial_sigma0", params={"parent_deme": "ref:AbstractDeme", "x0": "ref:Individual"}, returns="fl", pure=True, trusted=True,
   note="numeric estimate from the parent's history (NumPy): reads only")
fn(C_U + "get_initial_stds", params={"parent_deme": "ref:AbstractDeme", "x0": "ref:Individual"}, returns="oarr", pure=True, trusted=True,
   note="numeric estimate from the parent's history (NumPy): reads only")
fn("ext.cma.CMAEvolutionStrategy", params={"x0": "g", "sigma0": "fl", "inopts": "rec"}, returns="ref:$CMAES", fresh_result=True, trusted=True,
   ensures=[cl("a_strategy", "result != None and cma_lambda(result) >= 1")], note="cma.CMAEvolutionStrategy construction")
ctor(D + "cma_deme.CMADeme.__init__", ["generations", "_cma_es"],
     "CmaDeme(self) and not engine_stop(self)",
     locals={"opts": "rec"},
     requires=[cl("has_a_seed", "deme_init_args.sprout_seed != None"),
               cl("config", "exact_type(deme_init_args.config, 'CMALevelConfig') and deme_init_args.config.generations >= 1")],
     modifies=[("$cma_asked", "True")],
     loops={0: dict(index="k", acc="starting_pop", acc_type="list[ref:Individual]", modifies=[], local_frame=[], invariant=[
         cl("inv_new", "len(starting_pop) == k and fresh(starting_pop)"),
         cl("inv_unevaluated", "forall(lambda a: imp(0 <= a < k, starting_pop[a] != None and fresh(starting_pop[a]) "
            "and starting_pop[a].problem == self._problem and needs_eval(starting_pop[a])), pat=starting_pop[a])")])})

# ---- population-based demes (SEA variants, DE, SHADE) ----------------------------------------------------------------------
fields("EALevelConfig", ea_class="ext:$SEAClass", pop_size="int", generations="int", sample_std_dev="fl")
fields("DELevelConfig", pop_size="int", generations="int", sample_std_dev="fl", dither="bool", scaling="fl", crossover="fl")
fields("SHADELevelConfig", pop_size="int", generations="int", sample_std_dev="fl", memory_size="int")
RNG = [("$np_draws", "o == None"), ("$py_draws", "o == None")]
fn("pyhms.initializers.sample_uniform", params={"bounds": "arr:B"}, returns="ext:$Initializer", pure=True, trusted=True,
   note="returns the closure that draws one uniform point of the box (numpy.random.uniform)")
fn("pyhms.initializers.sample_normal", params={"center": "g", "std_dev": "fl", "bounds": "arr:B"}, returns="ext:$Initializer", pure=True, trusted=True,
   note="returns the closure that draws normal points around the centre until one lies in the box (rejection sampling)")
fn("ext.$Initializer.__call__", returns="g", modifies=RNG, trusted=True,
   note="one sampled genome; only the global NumPy generator is advanced")
fn("ext.$SEAClass.create", returns="ref:BaseSEA", fresh_result=True, trusted=True, ensures=[cl("an_engine", "result != None")],
   note="engine factory (operator pipeline construction): keyword arguments are not modelled")
S_ = D + "single_pop_eas.de."
fn(S_ + "DE.__init__", params={"use_dither": "bool", "crossover_probability": "fl", "f": "fl"}, modifies=[], trusted=True,
   note="engine construction: operator objects only")
fn(S_ + "SHADE.__init__", params={"memory_size": "int", "population_size": "int"}, modifies=[], trusted=True,
   note="engine construction: NumPy memory arrays only")

I_ = "pyhms.core.individual.Individual."
fn(I_ + "create_population", params={"pop_size": "int", "problem": "ref:Problem", "initialize": "ext:$Initializer"},
   returns="list[ref:Individual]", self="Individual", fresh_result=True, modifies=RNG,
   loops={0: dict(index="k", acc="pop", acc_type="list[ref:Individual]", modifies=RNG, local_frame=[], invariant=[
       cl("inv_new", "len(pop) == k and fresh(pop)"),
       cl("inv_unevaluated", "forall(lambda a: imp(0 <= a < k, pop[a] != None and fresh(pop[a]) and pop[a].problem == problem "
          "and needs_eval(pop[a])), pat=pop[a])")])},
   ensures=[cl("size", "len(result) == ite(pop_size > 0, pop_size, 0) and fresh(result) and kind(result) == 0", tags="C12"),
            cl("new_unevaluated_individuals", "forall(lambda a: imp(0 <= a < len(result), result[a] != None and fresh(result[a]) "
               "and result[a].problem == problem and needs_eval(result[a])), pat=result[a])", tags="C02")])

# "some individual of the initial population has the seed's genome"; the second disjunct is the instance k = len - 1 of the first
# (it only tells the solver where to look)
SEEDED = ("imp(deme_init_args.sprout_seed != None, exists(lambda k: 0 <= k and k < len(cur_pop(self)) and "
          "cur_pop(self)[k].genome == deme_init_args.sprout_seed.genome) or "
          "(len(cur_pop(self)) >= 1 and cur_pop(self)[len(cur_pop(self)) - 1].genome == deme_init_args.sprout_seed.genome))")
for mod, cls, cfg, eng, own in (("ea_deme", "EADeme", "EALevelConfig", "_ea", ["_sample_std_dev", "_pop_size", "_generations", "_ea"]),
                                ("de_deme", "DEDeme", "DELevelConfig", "_de", ["_sample_std_dev", "_pop_size", "_generations", "_de"]),
                                ("shade_deme", "SHADEDeme", "SHADELevelConfig", "_shade",
                                 ["_sample_std_dev", "_pop_size", "_init_pop_size", "_generations", "_shade"])):
    ctor(D + f"{mod}.{cls}.__init__", own,
         f"DemePop(self) and not engine_stop(self) and self.{eng} != None and self._generations >= 1",
         requires=[cl("config", f"exact_type(deme_init_args.config, '{cfg}') and deme_init_args.config.generations >= 1 "
                      "and deme_init_args.config.pop_size >= 1")],
         modifies=RNG,
         ensures=[cl("configured_population_size", "len(cur_pop(self)) == deme_init_args.config.pop_size", tags="C12"),
                  cl("contains_the_sprout_seed", SEEDED, tags="C07")])

# the abstract constructor contract that init_from_config / the tree rely on is exactly what the seven constructors establish
_abs = CONTRACTS["ext.$DemeCtor.__call__"]
assert " ".join(_abs.ensures[0].text.split()) == " ".join(FRESH.replace("self", "result").split()), "ext.$DemeCtor drifted from the constructor contracts"
assert [" ".join(c.text.split()) for c in _abs.requires] == [" ".join(c.text.split()) for c in CTOR_PRE]

from pyvc.spec import trusted  # noqa: E402
trusted("level configurations are sane: pop_size >= 1, generations >= 1, a sprout seed for CMA-ES / local-search levels, a configuration "
        "object of the class the deme class expects (the built-in class table guarantees the latter)")

# ---- the class invariant of whatever deme class an object has (used by the tree invariant: S_deme / DemeOk in d10) ---------------------------
macro("ClassInv", ["d"], """
    imp(exact_type(d, 'EADeme'), DemePop(d) and cast(d, 'ref:EADeme')._ea != None and cast(d, 'ref:EADeme')._generations >= 1)
    and imp(exact_type(d, 'DEDeme'), DemePop(d) and cast(d, 'ref:DEDeme')._de != None and cast(d, 'ref:DEDeme')._generations >= 1)
    and imp(exact_type(d, 'SHADEDeme'), DemePop(d) and cast(d, 'ref:SHADEDeme')._shade != None and cast(d, 'ref:SHADEDeme')._generations >= 1)
    and imp(exact_type(d, 'CMADeme'), CmaDeme(cast(d, 'ref:CMADeme')))
    and imp(exact_type(d, 'LHSDeme'), SamplerDeme(cast(d, 'ref:LHSDeme')))
    and imp(exact_type(d, 'SobolDeme'), SamplerDeme(cast(d, 'ref:SobolDeme')))
    and imp(exact_type(d, 'LocalDeme'), LocalInv(cast(d, 'ref:LocalDeme')))
""")
