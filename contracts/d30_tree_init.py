"""DemeTree.__init__, AbstractDeme.__init__ (C07: the structure is established; C14: seeding comes first)."""
from pyvc.spec import cl, fn, macro, ghost_fields, fields, trusted, CONTRACTS
from pyvc_contracts_d10_tree_structure import struct, USER_PROBLEM_FRAME
from pyvc_contracts_c20_individual import chain_frame

T = "pyhms.tree.DemeTree."
fields("$rec", log_level="str")

# ---- ghost state of the two global random generators (C14) ----------------------------------------------------------
ghost_fields(**{"$np_seed": "oint", "$np_draws": "int", "$py_seed": "oint", "$py_draws": "int"})
macro("np_seed", [], 'field(None, "$np_seed", "oint")')      # seed last given to numpy's global generator (None: never)
macro("np_draws", [], 'field(None, "$np_draws", "int")')     # draws from it since then
macro("py_seed", [], 'field(None, "$py_seed", "oint")')
macro("py_draws", [], 'field(None, "$py_draws", "int")')
RNG_FRAME = [("$np_draws", "o == None"), ("$py_draws", "o == None")]

fn("ext.random.seed", params={"a": "oint"}, modifies=[("$py_seed", "o == None"), ("$py_draws", "o == None")],
   ensures=[cl("seeded", "py_seed() == a and py_draws() == 0")], trusted=True,
   note="random.seed(s): Python's global generator becomes a deterministic function of s")
fn("ext.numpy.random.seed", params={"seed": "oint"}, modifies=[("$np_seed", "o == None"), ("$np_draws", "o == None")],
   ensures=[cl("seeded", "np_seed() == seed and np_draws() == 0")], trusted=True,
   note="numpy.random.seed(s): NumPy's global generator becomes a deterministic function of s")
fn("pyhms.logging_.get_logger", params={"log_level": "str"}, returns="ref:$Logger", fresh_result=True, trusted=True,
   ensures=[cl("a_logger", "result != None")], note="structlog logger construction: output only")

macro("ConfigOk", ["c"], """
    c != None and c.levels != None and c.options != None and kind(c.levels) == 0 and len(c.levels) >= 0
    and forall(lambda l: imp(0 <= l < len(c.levels), c.levels[l] != None and c.levels[l].lsc != None
                              and c.levels[l].problem != None and WfProblem(c.levels[l].problem)
                              and forall(lambda o: imp(in_chain(c.levels[l].problem, o), wowner(o) == None), o="ref:Problem",
                                         pat=in_chain(c.levels[l].problem, o))),
               pat=c.levels[l])
""")

fn(T + "__init__", params={"config": "ref:TreeConfig"},
   requires=[cl("config", "ConfigOk(config)")],
   modifies=[(f_, "o == self") for f_ in ("metaepoch_count", "config", "_gsc", "_sprout_mechanism", "_logger", "_random_seed", "_levels")]
            + USER_PROBLEM_FRAME + [("$steps", "o == self"), ("$np_seed", "o == None"), ("$np_draws", "o == None"),
                                                       ("$py_seed", "o == None"), ("$py_draws", "o == None")],
   loops={0: dict(index="k", acc="lv", acc_type="list[list[ref:AbstractDeme]]", modifies=[], invariant=[
       cl("inv_len", "len(lv) == k and fresh(lv)"),
       cl("inv_fresh_empty", "forall(lambda a: imp(0 <= a < k, lv[a] != None and fresh(lv[a]) and len(lv[a]) == 0 and lv[a] != lv), pat=lv[a])"),
       cl("inv_distinct", "forall(lambda a, b: imp(0 <= a and a < b and b < k, lv[a] != lv[b]))"),
   ])},
   ghost_after={"assign:metaepoch_count@0": ["setg(self, '$steps', 0)"], "assign:_levels@0": [
       "setg(self._levels, '$kind', 4)", "setg(self._levels, '$owner', self)",
       "setg_all(lambda k_: self._levels[k_], '$kind', lambda k_: 1, 0, len(self._levels))",
       "setg_all(lambda k_: self._levels[k_], '$owner', lambda k_: self, 0, len(self._levels))",
       "setg_all(lambda k_: self._levels[k_], '$lvl', lambda k_: k_, 0, len(self._levels))"],
       "append@0": ["setg(root_deme, '$lidx', 0)"]},
   calls={"initialize.init_from_config": [
       cl("generators_seeded_before_the_root_is_built",
          "imp(some(self._random_seed), np_seed() == self._random_seed and np_draws() == 0 "
          "and py_seed() == self._random_seed and py_draws() == 0)", tags="C14")]},
   ensures=struct("self") + [
       cl("fresh_tree", "self.metaepoch_count == 0 and steps(self) == 0 and self.config == config and self._gsc == config.gsc "
          "and self._sprout_mechanism == config.sprout_mechanism", tags="C07 C05"),
       cl("only_a_root", "forall(lambda l: imp(1 <= l and l < len(self._levels), len(self._levels[l]) == 0), pat=self._levels[l])", tags="C07"),
       cl("root_is_fresh", "self._levels[0][0]._active and not self._levels[0][0]._hibernating and self._levels[0][0]._started_at == 0 "
          "and self._levels[0][0]._sprout_seed == None", tags="C07 C18"),
       cl("seed_recorded", "imp('random_seed' in config.options, same(self._random_seed, config.options['random_seed'])) and "
          "imp(not ('random_seed' in config.options), is_none(self._random_seed))", tags="C14"),
   ],
   raises=[cl("only_without_levels", "len(config.levels) < 1", tags="C07")])
