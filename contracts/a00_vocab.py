"""Shared specification vocabulary (DESIGN section 5): ghost state, spec functions, invariants."""
from pyvc.spec import axiom, cl, fields, fn, ghost_fields, macro, opaque, specfn, trusted

# ---- problems ---------------------------------------------------------------------------------
specfn("F", ["ref", "g"], "fl")            # objective value of FunctionProblem fp at a genome (deterministic, total)
specfn("inner", ["ref"], "ref")            # innermost FunctionProblem under a wrapper stack
specfn("dirmax", ["ref"], "bool")          # direction of a FunctionProblem
specfn("box", ["ref"], "arr:B")            # bounds array of a FunctionProblem
specfn("depth", ["ref"], "int")            # nesting depth (ghost, makes chains acyclic)
specfn("in_chain", ["ref", "ref"], "bool") # in_chain(p, o): o is p or below p in p's wrapper stack
specfn("in_box", ["g", "arr:B"], "bool")
specfn("dur_owner", ["ref"], "ref")        # the StatsGatheringProblem that owns a durations list   # every coordinate of the genome within the box (row view)

ghost_fields(**{"$ncalls": "int", "$refused": "bool", "$kind": "int", "$clock": "int"})
macro("clock", [], 'field(None, "$clock", "int")')     # ghost: total number of objective invocations so far   # $kind of a list: see d10_tree_structure (9 = durations)

macro("ncalls", ["p"], 'field(p, "$ncalls", "int")')
macro("refused", ["w"], 'field(w, "$refused", "bool")')
macro("worst", ["fp"], "ite(dirmax(fp), -inf, inf)")
macro("worse", ["fp", "a", "b"], "ite(dirmax(fp), fl(a) < fl(b), fl(a) > fl(b))")
macro("better", ["fp", "a", "b"], "worse(fp, b, a)")

macro("Wf1", ["o"], """
    o != None and depth(o) >= 0
    and (instance_of(o, "FunctionProblem") or instance_of(o, "ProblemWrapper"))
    and imp(instance_of(o, "FunctionProblem"),
            inner(o) == o and depth(o) == 0 and dirmax(o) == cast(o, "ref:FunctionProblem")._maximize
            and box(o) == cast(o, "ref:FunctionProblem")._bounds
            and cast(o, "ref:FunctionProblem")._cache == None)
    and imp(instance_of(o, "StatsGatheringProblem"),
            cast(o, "ref:StatsGatheringProblem")._durations != None
            and dur_owner(cast(o, "ref:StatsGatheringProblem")._durations) == o
            and field(cast(o, "ref:StatsGatheringProblem")._durations, "$kind", "int") == 9)
    and imp(instance_of(o, "ProblemWrapper"),
            cast(o, "ref:ProblemWrapper")._inner != None
            and inner(o) == inner(cast(o, "ref:ProblemWrapper")._inner)
            and depth(o) == depth(cast(o, "ref:ProblemWrapper")._inner) + 1
            and in_chain(o, cast(o, "ref:ProblemWrapper")._inner))
""")
opaque("WfProblem", ["p"], """
    Wf1(p) and forall(lambda o: imp(in_chain(p, o), Wf1(o)), o="ref:Problem")
""")
# in_chain / depth / inner are ghost functions *defined* as the reflexive-transitive closure of the
# (immutable after construction) `_inner` link, the length of the chain below an object and its last
# element; the axioms below are the properties of that definition (DESIGN 4.3, listed as trusted).
axiom("chain_refl", "forall(lambda o: in_chain(o, o), o='ref:Problem')")
axiom("chain_trans", "forall(lambda o, q, r: imp(in_chain(o, q) and in_chain(q, r), in_chain(o, r)), "
      "o='ref:Problem', q='ref:Problem', r='ref:Problem')")
axiom("chain_depth", "forall(lambda o, q: imp(in_chain(o, q), depth(q) <= depth(o) and imp(q != o, depth(q) < depth(o)) "
      "and inner(q) == inner(o)), o='ref:Problem', q='ref:Problem')")
axiom("chain_unfold", "forall(lambda o, q: imp(allocated(o) and in_chain(o, q) and instance_of(o, 'ProblemWrapper'), "
      "q == o or in_chain(cast(o, 'ref:ProblemWrapper')._inner, q)), o='ref:Problem', q='ref:Problem', pat=in_chain(o, q))")
axiom("chain_leaf", "forall(lambda o, q: imp(in_chain(o, q) and instance_of(o, 'FunctionProblem'), q == o), "
      "o='ref:Problem', q='ref:Problem', pat=in_chain(o, q))")
axiom("chain_typed", "forall(lambda o, q: imp(in_chain(o, q) and q != o, instance_of(q, 'Problem')), "
      "o='ref:Problem', q='ref:Problem', pat=in_chain(o, q))")
axiom("chain_alloc", "forall(lambda o, q: imp(in_chain(o, q) and allocated(o), allocated(q)), "
      "o='ref:Problem', q='ref:Problem', pat=in_chain(o, q))", only=["AbstractDeme.__init__"])
axiom("chain_inner", "forall(lambda o: in_chain(o, inner(o)) and depth(inner(o)) == 0 and inner(inner(o)) == inner(o), "
      "o='ref:Problem')")
# the two possible outcomes of an evaluation through any wrapper stack
macro("Transparent", ["p", "x", "r", "n0", "n1"], """
    (r == F(inner(p), x) and n1 == n0 + 1) or (r == worst(inner(p)) and n1 == n0)
""")

trusted("closed world for problems: every Problem is a FunctionProblem or a ProblemWrapper stack over one "
        "(user-defined Problem subclasses are outside the contracts)")
trusted("FunctionProblem(use_cache=False): with the cache on, cached values are returned without invoking the "
        "objective, which the counting properties (C03) exclude")
trusted("the user's objective is a deterministic total function F(problem, genome) that does not return NaN")

trusted("WfProblem is an opaque, state-independent predicate: the fields it reads (_inner, _maximize, _bounds, _cache, "
        "_durations) are written only by constructors (checked mechanically on every run)")

from pyvc.spec import ghost_definition  # noqa: E402
ghost_definition("ProblemWrapper", "wrapper_link", """
    imp(self._inner != None, inner(self) == inner(self._inner) and depth(self) == depth(self._inner) + 1 and in_chain(self, self._inner)
        and forall(lambda q: imp(in_chain(self, q), q == self or in_chain(self._inner, q)), q='ref:Problem', pat=in_chain(self, q)))
""", "defining equations of the ghost functions inner/depth/in_chain for a newly constructed wrapper (they are the closure of the "
     "_inner link, which only constructors write): assumed when the constructor returns")
ghost_definition("FunctionProblem", "function_problem_link", """
    inner(self) == self and depth(self) == 0 and dirmax(self) == self._maximize and box(self) == self._bounds
""", "defining equations of inner/depth/dirmax/box for a newly constructed FunctionProblem: assumed when the constructor returns")
