"""pyhms/hms.py - the two entry points (C05, C03, C04)."""
from pyvc.spec import cl, fn, macro, fields, CONTRACTS
from pyvc_contracts_d10_tree_structure import struct
from pyvc_contracts_d20_tree_run import STEP_FRAME

H = "pyhms.hms."
T = "pyhms.tree.DemeTree."
INIT = CONTRACTS[T + "__init__"]
RUN = CONTRACTS[T + "run"]

fn(H + "hms", params={"level_config": "list[ref:BaseLevelConfig]", "gsc": "ref:$GSC", "sprout_cond": "ref:SproutMechanism", "options": "rec"},
   returns="ref:DemeTree", fresh_result=True,
   requires=[cl("levels", "level_config != None and kind(level_config) == 0 and len(level_config) >= 1 and options != None and "
                "forall(lambda l: imp(0 <= l < len(level_config), level_config[l] != None and level_config[l].lsc != None "
                "and level_config[l].problem != None and WfProblem(level_config[l].problem) "
                "and forall(lambda o: imp(in_chain(level_config[l].problem, o), wowner(o) == None), o='ref:Problem')), pat=level_config[l])"),
             cl("conditions", "gsc != None and MechOk(sprout_cond)")],
   modifies=[(f, c.replace("self", "result") if "self" in c else c) for f, c in []] + [("*", "True")],
   ensures=[cl("a_tree_of_the_configuration", "result.config.levels == level_config and result._gsc == gsc", tags="C07"),
            cl("returns_when_the_stop_condition_holds", "gsc_last(result) and gsc_clock(result) == clock()", tags="C05"),
            cl("counter_counts_the_metaepochs_performed", "result.metaepoch_count == steps(result)", tags="C05")]
           + [cl("r_" + c.label, c.text.replace("self", "result"), " ".join(sorted(c.tags))) for c in struct("self")])

# ---- minimize(): the SciPy-like front end -----------------------------------------------------------------------------------
U = "pyhms.utils.parameter_initializer."
fields("OptimizeResult", x="g", nfev="int", fun="fl", nit="int")
fields("EALevelConfig", mutation_std="fl")
fn(U + "get_default_generations", params={"bounds": "arr:B", "tree_level": "int"}, returns="int", pure=True, trusted=True,
   ensures=[cl("at_least_one", "result >= 1")], note="table lookup: 1 for the root level, 20 below")
fn(U + "get_default_population_size", params={"bounds": "arr:B", "tree_level": "int"}, returns="int", pure=True, trusted=True,
   ensures=[cl("at_least_one", "result >= 1")], note="(10 + 2 * dimensions) // (level + 1), at least 5 for levels 0 and 1")
fn(U + "get_default_mutation_std", params={"bounds": "arr:B", "tree_level": "int"}, returns="fl", pure=True, trusted=True,
   note="a quarter of the mean range (NumPy)")
fn("pyhms.logging_.parse_log_level", params={"log_level": "str"}, returns="str", pure=True, trusted=True,
   note="string / enum normalisation of the log level")
fn("pyhms.sprout.sprout_mechanisms.get_NBC_sprout", params={"gen_dist_factor": "fl", "trunc_factor": "fl", "fil_dist_factor": "fl", "level_limit": "int"},
   returns="ref:SproutMechanism", fresh_result=True, modifies=[],
   ensures=[cl("a_well_formed_mechanism", "MechOk(result)", tags="C10")])

fn(H + "minimize", params={"fun": "ext:objective", "bounds": "arr:B", "maxfun": "oint", "maxiter": "oint", "seed": "oint",
                           "log_level": "str"},
   returns="ref:OptimizeResult", fresh_result=True, reveal=["WfProblem"],
   ghost_after={"FunctionProblem@0": ["lemma('function_problem_is_well_formed', WfProblem(_call_result) and wowner(_call_result) == None)"],
                "EvalCutoffProblem@0": ["lemma('cutoff_wrapper_is_well_formed', WfProblem(_call_result) and wowner(_call_result) == None)"]},
   requires=[cl("arguments", "bounds != None")],
   modifies=[("*", "True")],
   ensures=[cl("a_result", "result != None"),
            # postconditions may mention the local variables of the body at the return statement
            cl("nit_is_the_number_of_metaepochs_performed", "result.nit == hms_tree.metaepoch_count and result.nit == steps(hms_tree)", tags="C05"),
            cl("returns_when_the_stop_condition_holds", "gsc_last(hms_tree) and gsc_clock(hms_tree) == clock()", tags="C05"),
            cl("exactly_maxiter_metaepochs_without_an_evaluation_budget",
               "imp(is_none(maxfun) and some(maxiter) and maxiter >= 0, result.nit == maxiter)", tags="C05"),
            cl("nfev_is_the_count_of_the_budget_wrapper", "imp(some(maxfun) and maxfun != 0, "
               "result.nfev == cast(wrapped_function_problem, 'ref:EvalCutoffProblem')._n_evals)", tags="C03")])
# not stated: (x, fun) is the tree's best individual - the best-individual accessor is a function of the whole heap in this encoding and
# the result object is allocated between the two reads (bounded stand-in: battery::C04)
