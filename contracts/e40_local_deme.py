"""pyhms/demes/local_deme.py - the one-shot local-search deme (C03, C05, C06) against the abstract deme contract."""
from pyvc.spec import cl, fn, macro, fields, refine
from pyvc_contracts_d10_tree_structure import USER_PROBLEM_FRAME
from pyvc_contracts_d20_tree_run import OWN_FRAME, LOCAL_PRIVATE

D = "pyhms.demes."
A = D + "abstract_deme.AbstractDeme."
L = D + "local_deme.LocalDeme."
fields("LocalDeme", _cost_sign="fl")
fields("$OptRes", x="g", fun="fl")          # scipy's intermediate result handed to the callback
fields("$OptResult", nfev="int")            # scipy's final result

# class invariant of the local deme (established by its constructor, kept by run_metaepoch): its own evaluation counter agrees
# with the counter of its counting wrapper, and the list it collects iterates in is its own
macro("LocalInv", ["d"], """
    d._problem != None and WfProblem(d._problem) and d._n_evals == d._problem._n_evals
    and d._run_history != None and kind(d._run_history) == 10 and owner(d._run_history) == d and d._sprout_seed != None
""")

fn(L + "_history_callback", params={"intermediate_result": "ref:$OptRes"},
   requires=[cl("deme", "self._run_history != None and kind(self._run_history) == 10 and intermediate_result != None")],
   modifies=[("$list<ref:Individual>", "o == self._run_history")],
   ensures=[cl("one_more_iterate", "len(self._run_history) == old(len(self._run_history)) + 1 and fresh(self._run_history[-1]) "
               "and self._run_history[-1].problem == self._problem and self._run_history[-1].genome == intermediate_result.x", tags="C02"),
            cl("earlier_iterates_kept", "forall(lambda k: imp(0 <= k < old(len(self._run_history)), "
               "self._run_history[k] == old(self._run_history[k])))", tags="C02")])

refine(L + "n_evaluations", A + "n_evaluations",
       requires=[cl("deme_invariant", "LocalInv(self)")],
       ensures=[cl("own_counter_is_the_wrapper_count", "result == counted(self)", tags="C03 C20")])

refine(L + "run_metaepoch", A + "run_metaepoch", params={"_": "ref:DemeTree"},
       modifies=OWN_FRAME + LOCAL_PRIVATE + USER_PROBLEM_FRAME,
       ghost_after={"minimize@0": ["setg(self, '$engine_stop', True)"]},
       loops={"callbacks": dict(
           modifies=[("_n_evals", "o == self._problem"), ("$list<ref:Individual>", "o == self._run_history")] + USER_PROBLEM_FRAME,
           invariant=[
               cl("inv_every_call_counted", "self._problem._n_evals - old(self._problem._n_evals) == sopt_fun_calls", tags="C03"),
               cl("inv_count", "counted(self) - old(counted(self)) >= clock() - old(clock()) and clock() >= old(clock())", tags="C03"),
               cl("inv_own", "self._n_evals == old(self._n_evals) and self._active and self._run_history == old(self._run_history) "
                  "and self._problem == old(self._problem) and tree == old(tree)")])},
       ensures=[cl("one_shot", "not self._active and engine_stop(self)", tags="C05 C06"),
                cl("own_counter_exact", "self._n_evals - old(self._n_evals) == self._problem._n_evals - old(self._problem._n_evals)", tags="C03"),
                cl("invariant_kept", "LocalInv(self)", tags="C03")])
